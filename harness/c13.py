"""C13 - expression typing: well-typed modules are accepted, ill-typed ones rejected (no crash).

Parts (``--only``):
  mc         TypingMC: exhaustive model check of the program-under-construction machine with
             small constants: every sealable base is WellTyped, every catalogue violation is
             ill-typed, blamed on the broken rule at the mutated site, and single-rule.
  catalogue  exhaustive generation: the all-default program x every slot x every node x every
             catalogue rule, replayed into the real compiler, decided by TypingCheck.
  sim        TLC -simulate random walks (seeded): bases with expressions of depth <= 3 at up to
             3 position classes + all catalogue rules at one random node; replayed and decided.
  selftest   corrupted observations must be flagged by TypingCheck (the binding bites).
"""
import json
import os
import random
import time

from . import typing_pool, typing_render
from .common import (MachineryError, Scratch, SPEC, chunks, dump_json, run_parallel, run_tlc,
                     write_cfg)

LEVEL = "model_checking"
AREA = os.path.join(SPEC, "typing")

ALL_SLOTS = ["start", "size", "len", "cond", "enumv", "virt", "sreq", "freq", "amax", "asig",
             "abo", "atxt", "arg1", "arg2"]
ALL_LEAVES = [l["name"] for l in typing_render.SKELETON_LEAVES]
CATALOGUE_RULES = ["arith_operand", "unary_operand", "ord_bool", "ord_enum", "ord_operand", "eq_mixed_enum",
                   "eq_operand", "logic_operand", "choice_cond", "choice_branches", "max_arity", "max_operand",
                   "present_arity", "present_nonfield", "bound_arity", "bound_operand", "offset_not_integer",
                   "size_not_integer", "array_length_not_integer", "enum_value_not_integer",
                   "condition_not_boolean", "requires_not_boolean", "attribute_value_kind", "param_arity",
                   "param_type", "param_enum_mismatch"]

TIERS = {
    "quick": dict(
        mc=dict(MaxDepth=1, MaxActive=1, leaves=["a", "f", "e", "s", "q"], ints=[2, 8]),
        sim=dict(procs=4, walks=60, depth=3, active=2, max_viol=1500),
        mc_timeout=900,
    ),
    "thorough": dict(
        mc=dict(MaxDepth=1, MaxActive=1, leaves=["a", "b", "f", "e", "h", "s", "vi", "vb", "p", "q"], ints=[1, 2, 8]),
        sim=dict(procs=12, walks=300, depth=3, active=3, max_viol=30000),
        mc_timeout=3000,
    ),
}


def _tla_set(xs):
    return "{" + ", ".join(json.dumps(x) if isinstance(x, str) else str(x) for x in xs) + "}"


def _gen_constants(depth, active, leaves, ints, emit):
    return {
        "MaxDepth": depth, "MaxActive": active, "Slots": _tla_set(ALL_SLOTS),
        "LeafNames": _tla_set(leaves), "IntConsts": _tla_set(ints),
        "Emit": "TRUE" if emit else "FALSE",
    }


def _dedupe(cases):
    seen, out = set(), []
    for c in cases:
        k = json.dumps(c, sort_keys=True)
        if k not in seen:
            seen.add(k)
            out.append(c)
    return out


# ---------------------------------------------------------------------------------------------

def _run_mc(chk, sc, cfg):
    cfgp = sc.file("mc.cfg")
    write_cfg(cfgp, constants=_gen_constants(cfg["mc"]["MaxDepth"], cfg["mc"]["MaxActive"],
                                             cfg["mc"]["leaves"], cfg["mc"]["ints"], False),
              invariants=["BaseWellTyped", "ViolationIllTyped", "ViolationSingle", "DepthBounded"])
    res = run_tlc(os.path.join(AREA, "TypingMC.tla"), cfgp, lib_areas=("typing",), workers=min(4, typing_pool.jobs_limit()),
                  coverage=True, timeout=cfg["mc_timeout"], metadir=sc.sub("meta-mc"))
    chk.add_tlc(res, part="mc")
    if res.invariant_violated:
        chk.violation("design:" + ",".join(res.invariant_violated),
                      "TypingMC: invariant %s violated (the typing rules and the generator/catalogue "
                      "disagree)\n%s" % (res.invariant_violated, res.error_trace_tail(40)))
    elif not res.clean:
        raise MachineryError("TypingMC did not complete:\n" + res.error_trace_tail(40))
    cov = res.coverage()
    never = [a for a in ("Fill", "Seal", "PickSite", "PickPath", "Violate") if cov.get(a, (0, 0))[1] == 0]
    chk.extra["mc_actions_never_taken"] = never
    chk.extra["mc_constants"] = cfg["mc"]


def _generate_catalogue(chk, sc):
    """All violations of the all-default program (exhaustive: MaxActive = 0)."""
    cfgp = sc.file("cat.cfg")
    write_cfg(cfgp, constants=_gen_constants(0, 0, ALL_LEAVES, [0, 1, 2, 3, 8], True))
    res = run_tlc(os.path.join(AREA, "TypingGen.tla"), cfgp, lib_areas=("typing",), workers=1,
                  timeout=900, metadir=sc.sub("meta-cat"))
    chk.add_tlc(res, part="catalogue-gen")
    if not res.clean:
        raise MachineryError("catalogue generation failed:\n" + res.error_trace_tail(40))
    return _dedupe(res.printed_json())


def _generate_sim_one(chk, sc, cfg, seed, k):
    s = cfg["sim"]
    cfgp = sc.file("gen%d.cfg" % k)
    write_cfg(cfgp, constants=_gen_constants(s["depth"], s["active"], ALL_LEAVES, [0, 1, 2, 3, 8], True))
    res = run_tlc(os.path.join(AREA, "TypingGen.tla"), cfgp, lib_areas=("typing",), workers=1,
                  simulate=s["walks"], depth=400, seed=seed * 1000 + k + 1, timeout=1500,
                  metadir=sc.sub("meta-gen%d" % k), heap="2g")
    chk.add_tlc(res, part="sim-gen")
    if res.rc != 0:
        raise MachineryError("generator failed:\n" + res.error_trace_tail(40))
    return res.printed_json()


def _select_sim(cases, cfg, seed):
    s = cfg["sim"]
    bases = [c for c in cases if c["kind"] == "base"]
    viols = [c for c in cases if c["kind"] == "viol"]
    if len(viols) > s["max_viol"]:
        rnd = random.Random(seed)
        viols = rnd.sample(viols, s["max_viol"])       # a deterministic subsample of the printed cases
    return bases + viols


def _replay(cases):
    """Render + compile every case (and the base of every violation); attach observations."""
    texts, index = [], {}

    def need(prog):
        k = json.dumps(prog, sort_keys=True)
        if k not in index:
            text, spans = typing_render.render(prog)
            index[k] = (len(texts), spans)
            texts.append(text)
        return index[k]
    refs = []
    for c in cases:
        me = need(c["prog"])
        base = need(c["base"]) if c["kind"] == "viol" else me
        refs.append((me, base))
    results = typing_pool.compile_all([(i, typing_render.files(t), "m.emb") for i, t in enumerate(texts)])
    records = []
    for tid, (c, (me, base)) in enumerate(zip(cases, refs)):
        r = results[me[0]]
        rb = results[base[0]]
        spans = {k: {"d": v["def"], "a": v["at"]} for k, v in me[1].items()}
        records.append({
            "tid": tid, "kind": c["kind"], "gwt": c["wt"],
            "prog": c["prog"], "viol": c["viol"], "spans": spans,
            "obs": {"acc": r["acc"], "exc": r["exc"],
                    "errs": [{"l1": e["l1"], "l2": e["l2"], "syn": e["syn"], "main": e["main"]} for e in r["errs"]]},
            "bacc": rb["acc"],
            "_text": texts[me[0]], "_errs": r["errs"], "_exc_text": r["exc_text"], "_base_text": texts[base[0]],
        })
    return records


def _decide(chk, sc, records, part, nshards=8):
    """TypingCheck decides every record; returns list of non-ok verdict dicts."""
    shards = [s for s in chunks(records, min(nshards, max(1, len(records) // 1500 + 1))) if s]
    files = []
    for k, sh in enumerate(shards):
        p = sc.file("%s-cases-%d.json" % (part, k))
        dump_json(p, {"skeleton": typing_render.SKELETON_LEAVES,
                      "cases": [{kk: v for kk, v in r.items() if not kk.startswith("_")} for r in sh]})
        files.append(p)
    cfgp = sc.file("check.cfg")
    write_cfg(cfgp, invariants=["Consumed"])

    def job(k):
        return lambda: run_tlc(os.path.join(AREA, "TypingCheck.tla"), cfgp, lib_areas=("typing",), workers=1,
                               env={"CASES_FILE": files[k]}, timeout=1500,
                               metadir=sc.sub("meta-%s-chk%d" % (part, k)), heap="3g")
    verdicts, total, masked = [], 0, 0
    for k, res in enumerate(run_parallel([job(k) for k in range(len(files))], nproc=min(len(files), typing_pool.jobs_limit()))):
        chk.add_tlc(res, part=part + "-check")
        if not res.clean:
            raise MachineryError("TypingCheck failed:\n" + res.error_trace_tail(40))
        out = res.printed_json()
        summ = [o for o in out if o.get("clause") == "summary"]
        if len(summ) != 1 or summ[0]["total"] != len(shards[k]):
            raise MachineryError("TypingCheck did not consume its shard (%r)" % (summ,))
        total += summ[0]["total"]
        masked += summ[0]["masked"]
        verdicts.extend(o for o in out if o.get("clause") != "summary")
    return verdicts, total, masked


def _report(chk, records, verdicts):
    by_tid = {r["tid"]: r for r in records}
    for v in verdicts:
        if v["clause"] in ("generator_disagrees", "skeleton_differs"):
            raise MachineryError("spec/harness inconsistency: %r" % (v,))
        r = by_tid[v["tid"]]
        key = "%s:%s" % (v["clause"], v["tag"])
        what = {
            "exception": "the compiler raised %s" % r["_exc_text"],
            "welltyped_rejected": "a module whose expressions follow the documented signatures was rejected: %s"
                                  % "; ".join("%d:%d %s" % (e["l1"], e["c1"], e["msg"]) for e in r["_errs"][:3]),
            "illtyped_accepted": "a module breaking rule '%s' at %s was accepted" % (v["rule"], v["slot"]),
            "error_not_in_definition": "rule '%s' broken at %s: rejected, but no non-synthetic error lies in the "
                                       "mutated definition (lines %s): %s"
                                       % (v["rule"], v["slot"], r["spans"].get(v["slot"], {}).get("d"),
                                          "; ".join("%d:%d %s" % (e["l1"], e["c1"], e["msg"]) for e in r["_errs"][:3])),
        }.get(v["clause"], v["clause"])
        chk.violation(key, "%s [%s]\n%s\n--- m.emb ---\n%s" % (key, r["kind"], what, r["_text"]),
                      {"case": {k: x for k, x in r.items() if not k.startswith("_")}, "emb": r["_text"],
                       "base_emb": r["_base_text"]})


def _selftest(chk, sc, records):
    """Corrupt recorded observations of cases TLC judged ok; every corruption must be flagged."""
    good = [r for r in records if r["obs"]["exc"] == ""]
    acc = [r for r in good if r["kind"] == "base" and r["obs"]["acc"]][:5]
    rej = [r for r in good if r["kind"] == "viol" and not r["obs"]["acc"] and r["bacc"]][:10]
    bad = []
    for r in acc:
        c = json.loads(json.dumps(r)); c["obs"]["acc"] = False
        c["obs"]["errs"] = [{"l1": 1, "l2": 1, "syn": False, "main": True}]; bad.append(c)
    for r in rej[:5]:
        c = json.loads(json.dumps(r)); c["obs"]["acc"] = True; c["obs"]["errs"] = []; bad.append(c)
    for r in rej[5:]:
        c = json.loads(json.dumps(r))
        for e in c["obs"]["errs"]:
            e["l1"] = e["l2"] = 1                     # error moved out of the mutated definition
        bad.append(c)
    for n, c in enumerate(bad):
        c["tid"] = n
    if not bad:
        return
    verdicts, _, _ = _decide(chk, sc, bad, "selftest", nshards=1)
    flagged = {v["tid"] for v in verdicts}
    chk.extra["selftest"] = {"corrupted": len(bad), "flagged": len(flagged)}
    # corrupting a record whose original verdict was already bad proves nothing; only count ok originals
    if len(flagged) < len(bad):
        missing = [c["tid"] for c in bad if c["tid"] not in flagged]
        # originals that were themselves non-ok (known findings) may legitimately stay the same
        raise MachineryError("binding self-test: corrupted records %r were not flagged by TypingCheck" % missing)


def run(chk, only=None):
    cfg = TIERS[chk.tier]
    typing_pool.warm()
    parts = only or {"mc", "catalogue", "sim", "selftest"}
    chk.rule = ("TLC builds programs by Fill/Seal actions (type-directed, operator depth <= 3, up to 3 of 14 "
                "position classes generated, rest default) and applies one catalogue rule violation at one node; "
                "non-trivial = distinct (rule, slot) pairs and distinct generated bases with at least one operator")
    chk.assumptions += [
        "fixed module skeleton (3 enums, parameterised struct, leaves of every expression type); only the 14 slot "
        "expressions vary",
        "integer leaves and literals are <= 9 in magnitude so every depth-3 expression fits 64 bits (C05's business)",
        "enum value site evaluates to 0..100 and maximum_bits site to 16..64 (value rules are C14's business)",
        "not generated (documentation ambiguous): ?: with composite branches, $present of a parameter, "
        "references to other fields inside a field's [requires], unary + (same signature as unary -)",
        "error location requirement: a non-synthetic error whose first line lies within the lines of the "
        "definition (field incl. its `if`/attribute lines, enum value, enum, struct) containing the broken construct",
    ]
    phase = chk.extra.setdefault("phase_wall_s", {})

    def timed(name, fn, *a):
        t0 = time.time()
        r = fn(*a)
        phase[name] = round(phase.get(name, 0) + time.time() - t0, 1)
        return r
    with Scratch("c13") as sc:
        # stage 1: model checking and both generators side by side (each TLC run is single-threaded
        # except the model check)
        jobs, names = [], []
        if "mc" in parts:
            jobs.append(lambda: _run_mc(chk, sc, cfg)); names.append("mc")
        if "catalogue" in parts:
            jobs.append(lambda: _generate_catalogue(chk, sc)); names.append("catalogue")
        if "sim" in parts:
            for k in range(cfg["sim"]["procs"]):
                jobs.append((lambda kk: (lambda: _generate_sim_one(chk, sc, cfg, chk.seed, kk)))(k)); names.append("sim")
        t0 = time.time()
        outs = run_parallel(jobs, nproc=typing_pool.jobs_limit())
        phase["tlc-generation+mc"] = round(time.time() - t0, 1)
        cat = [c for n, o in zip(names, outs) if n == "catalogue" for c in o]
        simcases = _select_sim(_dedupe([c for n, o in zip(names, outs) if n == "sim" for c in o]), cfg, chk.seed)
        records = []
        if cat:
            recs = timed("compile", _replay, cat)
            verdicts, total, masked = timed("check", _decide, chk, sc, recs, "catalogue")
            _report(chk, recs, verdicts)
            chk.traces += total
            chk.extra["catalogue_cases"] = total
            chk.extra["catalogue_rules"] = sorted({"%s@%s" % (c["viol"]["rule"], c["viol"]["slot"]) for c in cat if c["kind"] == "viol"})
            for c in cat:
                if c["kind"] == "viol":
                    chk.note_nontrivial("%s@%s" % (c["viol"]["rule"], c["viol"]["slot"]))
            records += recs
            seen_rules = {c["viol"]["rule"] for c in cat if c["kind"] == "viol"}
            chk.extra["catalogue_rules_never_exercised"] = [r for r in CATALOGUE_RULES if r not in seen_rules]
            chk.exhaustive = True if parts == {"catalogue"} else None
        if simcases:
            cases = simcases
            recs = timed("compile", _replay, cases)
            verdicts, total, masked = timed("check", _decide, chk, sc, recs, "sim")
            _report(chk, recs, verdicts)
            chk.traces += total
            nb = sum(1 for c in cases if c["kind"] == "base")
            chk.extra["sim"] = {"bases": nb, "violations": len(cases) - nb, "masked_by_rejected_base": masked,
                                "bases_accepted": sum(1 for r in recs if r["kind"] == "base" and r["obs"]["acc"])}
            for c in cases:
                if c["kind"] == "viol":
                    chk.note_nontrivial("%s@%s" % (c["viol"]["rule"], c["viol"]["slot"]))
                elif any(e["k"] == "op" for e in list(c["prog"]["sites"].values()) + c["prog"]["args"]):
                    chk.nontrivial_count += 1
            for r in recs[:2] + [r for r in recs if r["kind"] == "viol"][:3]:
                chk.sample({"kind": r["kind"], "viol": r["viol"], "accepted": r["obs"]["acc"],
                            "emb_excerpt": [l for l in r["_text"].splitlines() if "t_" in l or "AA =" in l or "requires" in l][:14]})
            records += recs
        if "selftest" in parts and records:
            timed("selftest", _selftest, chk, sc, records)
        chk.evaluations = chk.traces


def _observe(rec, emb, base_emb):
    """Re-run the real compiler on a stored case (replay)."""
    r, rb = typing_pool.compile_all([(0, typing_render.files(emb), "m.emb"), (1, typing_render.files(base_emb), "m.emb")])
    rec = dict(rec)
    rec["obs"] = {"acc": r["acc"], "exc": r["exc"],
                  "errs": [{"l1": e["l1"], "l2": e["l2"], "syn": e["syn"], "main": e["main"]} for e in r["errs"]]}
    rec["bacc"] = rb["acc"]
    rec.update({"_text": emb, "_errs": r["errs"], "_exc_text": r["exc_text"], "_base_text": base_emb})
    return rec


def replay(chk, path):
    """Re-decide one stored violation against the repo's current working tree."""
    with open(path) as f:
        stored = json.load(f)
    payload = stored["case"]
    rec = _observe(payload["case"], payload["emb"], payload.get("base_emb", payload["emb"]))
    rec["tid"] = 0
    with Scratch("c13r") as sc:
        verdicts, total, _ = _decide(chk, sc, [rec], "replay", nshards=1)
        _report(chk, [rec], verdicts)
        chk.traces = chk.evaluations = total
        chk.rule = "replay of %s" % stored.get("key")
