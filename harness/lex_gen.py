"""Input families for C10 (texts only; no expectations are computed here).

Every generator is deterministic for a given seed and returns a list of (id, family, text).
"""
import glob
import itertools
import os
import random
import re

from .common import REPO

ALPHA14 = "aA_01xb$\"\\-# \t"          # DESIGN §5 C10: 14 symbols ...
ALPHA15 = ALPHA14 + "\n"               # ... + one line terminator

# str.splitlines() terminators and all str.isspace() code points are enumerated from the running
# Python (the named modelling decisions D1/D2 of Lex.tla are checked against them).
LINE_TERMS = ["\n", "\r", "\r\n", "\x0b", "\x0c", "\x1c", "\x1d", "\x1e", "\x85", "\u2028", "\u2029"]


def unicode_spaces():
    return [chr(c) for c in range(0x110000) if chr(c).isspace()]


LOOKALIKES = ["\u200b", "\ufeff", "\u180e", "\u2060", "\x00", "\x7f", "\x1f", "\xad", "\xe9", "\U0001f600", "\ud800"]


def exhaustive(alpha, maxlen, fam="short"):
    out = []
    n = 0
    for L in range(0, maxlen + 1):
        for tup in itertools.product(alpha, repeat=L):
            out.append(("%s-%d" % (fam, n), fam, "".join(tup)))
            n += 1
    return out


def sampled_strings(alpha, length, count, seed, fam="short-sample"):
    rnd = random.Random("%s/%d/%d" % (fam, seed, length))
    seen = set()
    out = []
    while len(out) < count:
        t = "".join(rnd.choice(alpha) for _ in range(length))
        if t in seen:
            continue
        seen.add(t)
        out.append(("%s-%d-%d" % (fam, length, len(out)), fam, t))
    return out


LEADS = ["", " ", "  ", "\t", " \t", "    "]
BODIES = ["a", "# c", ""]


def indent_texts(max_lines_full, extra_lines, extra_count, seed):
    shapes = [l + b for l in LEADS for b in BODIES]
    out = []
    n = 0
    for k in range(1, max_lines_full + 1):
        for tup in itertools.product(shapes, repeat=k):
            out.append(("indent-%d" % n, "indent", "\n".join(tup)))
            n += 1
    rnd = random.Random("indent/%d" % seed)
    for _ in range(extra_count):
        k = rnd.choice(extra_lines)
        tup = [rnd.choice(shapes) for _ in range(k)]
        term = rnd.choice(LINE_TERMS) if rnd.random() < 0.3 else "\n"
        t = term.join(tup) + (term if rnd.random() < 0.5 else "")
        out.append(("indent-%d" % n, "indent", t))
        n += 1
    return out


def corpus_files():
    files = sorted(set(glob.glob(os.path.join(REPO, "**", "*.emb"), recursive=True)))
    return [f for f in files if "/.git/" not in f]


def read_text(path):
    with open(path, encoding="utf-8") as f:
        return f.read()


def error_example_snippets():
    path = os.path.join(REPO, "compiler", "front_end", "error_examples")
    if not os.path.exists(path):
        return []
    text = read_text(path)
    out = []
    for block in text.split("\n" + "=" * 80 + "\n")[1:]:
        parts = block.split("\n" + "-" * 80 + "\n")
        if len(parts) != 2:
            continue
        for ex in parts[1].split("\n---\n"):
            out.append(ex)
    return out


def doc_code_blocks():
    out = []
    for name in ("language-reference.md", "guide.md"):
        p = os.path.join(REPO, "doc", name)
        if not os.path.exists(p):
            continue
        for m in re.finditer(r"```[a-z]*\n(.*?)```", read_text(p), re.S):
            out.append(m.group(1))
    return out


def corpus(seed=0):
    out = []
    for f in corpus_files():
        out.append(("corpus:" + os.path.relpath(f, REPO), "corpus", read_text(f)))
    for k, s in enumerate(error_example_snippets()):
        out.append(("errex-%d" % k, "error-examples", s))
    for k, s in enumerate(doc_code_blocks()):
        out.append(("doc-%d" % k, "doc-examples", s))
    return out


def atoms(table):
    """Every keyword/operator of the documented table plus examples and near-misses of the regex rows."""
    lits = [p["sym"][1:-1] for p in table["patterns"] if p["lit"]]
    examples = [
        "EmbossReserved", "EmbossReservedX9", "emboss_reserved", "emboss_reserved_a1", "EMBOSS_RESERVED",
        "EMBOSS_RESERVED_A", "Emboss", "emboss_reserve", '"s"', '""', '"a\\"b"', '"a\\\\"', '"a\\nb"', '"a\\tb"', '"unterminated',
        "0", "12", "012", "1_000", "12_345_678", "1000_000", "1_00", "1__000", "_1", "1_",
        "0x0", "0xC", "0XC", "0xfFfF_0000", "0x_ff", "0x1234_567", "0x1234_5678_9abcdef0", "0x12345678_9abcdef0",
        "0x_", "0x", "0xg", "0b0", "0b1010_0101", "0b10100101_10100101", "0b_1", "0b2", "0B1", "0b101_0101", "0b",
        "true", "false", "True", "truex", "x", "name", "snake_case_1", "a_", "aB", "abcDef",
        "A", "A1", "AB", "A_", "A_1", "SHOUTY_CASE", "Ab", "Type", "CamelCase9", "ABc", "Foo_", "_x", "$x", "a$b",
        "$max", "$maxx", "$", "$default", "$defaults", "$size_in_bits", "$size_in_bit",
        "--", "-- doc", "--doc", "-- ", "--  two", "---", "#", "# c", "#c -- d", "!", "&", "|", "`", "@", ";", "{", "'", "~", "/", "%", "^",
        "=", "===", "!==", "<==", ">>=", "&&&", "|||", "..", "::", "?:", "+-", "-+", "[+", "+]", "()",
        "struct", "structs", "Struct", "STRUCT", "bits", "bit", "enum", "external", "import", "as", "ass", "if", "iff", "let",
    ]
    seen = set()
    out = []
    for a in lits + examples:
        if a not in seen:
            seen.add(a)
            out.append(a)
    return out


def soup(table, seed, pairs_budget, lines_budget):
    """All single atoms; seeded pairs with every separator; seeded longer lines and small files."""
    A = atoms(table)
    seps = ["", " ", "  ", "\t", "\xa0", "\u2003"]
    out = []
    n = 0
    for a in A:
        out.append(("soup-%d" % n, "soup", a)); n += 1
    rnd = random.Random("soup/%d" % seed)
    pairs = [(a, b, s) for a in A for b in A for s in ("", " ")]
    rnd.shuffle(pairs)
    for a, b, s in pairs[:pairs_budget]:
        out.append(("soup-%d" % n, "soup", a + s + b)); n += 1
    for _ in range(lines_budget):
        nl = rnd.choice([1, 1, 2, 3])
        lines = []
        for _l in range(nl):
            k = rnd.randint(1, 7)
            lead = rnd.choice(["", "", "  ", "    ", "\t"])
            lines.append(lead + "".join(rnd.choice(A) + rnd.choice(seps) for _k in range(k)))
        out.append(("soup-%d" % n, "soup", rnd.choice(LINE_TERMS).join(lines) + rnd.choice(["", "\n"]))); n += 1
    return out


MUT_CHARS = list("aA_0x$\"\\-# \t:=[]().,+*?<>!&|") + ["\xa0", "\xe9", "\x0c", "`", "'"]


def mutated(seed, count):
    """Windows of 1..4 consecutive corpus lines with 1..3 seeded character edits."""
    rnd = random.Random("mut/%d" % seed)
    pools = []
    for f in corpus_files():
        ls = read_text(f).split("\n")
        if len(ls) > 3:
            pools.append(ls)
    out = []
    if not pools:
        return out
    for n in range(count):
        ls = rnd.choice(pools)
        k = rnd.randint(1, 4)
        i = rnd.randrange(0, max(1, len(ls) - k))
        t = list("\n".join(ls[i:i + k]))
        for _ in range(rnd.randint(1, 3)):
            op = rnd.choice(["ins", "del", "rep", "swap", "dup"])
            if not t:
                op = "ins"
            j = rnd.randrange(0, len(t) + (1 if op == "ins" else 0)) if t else 0
            if op == "ins":
                t.insert(j, rnd.choice(MUT_CHARS))
            elif op == "del":
                del t[j]
            elif op == "rep":
                t[j] = rnd.choice(MUT_CHARS)
            elif op == "swap" and j + 1 < len(t):
                t[j], t[j + 1] = t[j + 1], t[j]
            elif op == "dup":
                t.insert(j, t[j])
        out.append(("mut-%d" % n, "mutated", "".join(t)))
    return out


def unicode_family():
    """Every line terminator and every whitespace code point (plus look-alikes that are neither)
    at the start, in the middle and at the end of a line, and as leading whitespace of a block."""
    out = []
    n = 0
    chars = []
    for c in LINE_TERMS + unicode_spaces() + LOOKALIKES:
        if c not in chars:
            chars.append(c)
    for c in chars:
        for t in (c, c + "a", "a" + c, "a" + c + "b", "a" + c + c + "b", "#x" + c + "y", "-- d" + c + "e", '"s' + c + 't"',
                  "a:" + c + "  b" + c + "c", "a\n" + c + "b\n" + c + "c\nd", "a\n" + c + "b\n" + c + c + "c\n" + c + "d\n",
                  "a\n " + c + "b\n" + c + " c", c + "# only\n" + c + "\nx"):
            out.append(("uni-%d" % n, "unicode", t)); n += 1
    return out
