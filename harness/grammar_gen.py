"""Generators driven by TLC: sentences of the real Emboss grammar (SentenceGen.tla) and small
context-free grammars (GrammarGen.tla).

Reusable entry point for other checks (C11, C16, ...):

    from harness import grammar_gen
    sents = grammar_gen.sentences(seed, n, max_tokens)      # -> list of lists of token kinds

Token kinds are the grammar's terminal names exactly as module_ir / the tokenizer spell them
('SnakeWord', '"struct"', '"\\n"', 'Indent', ...).  Deterministic for a given seed.
"""
import json
import os
import sys

from .common import REPO, Scratch, MachineryError, dump_json, run_parallel
from .grammar_tlc import tlc

if REPO not in sys.path:
    sys.path.insert(0, REPO)
sys.dont_write_bytecode = True


def emboss_grammar(start=None):
    """The grammar in the source: module_ir.PRODUCTIONS with START_SYMBOL (or `start`)."""
    from compiler.front_end import module_ir
    return {"start": start or module_ir.START_SYMBOL,
            "prods": [[str(p.lhs), [str(x) for x in p.rhs]] for p in sorted(module_ir.PRODUCTIONS)]}


def _printed(res):
    return [r for r in res.printed_json() if isinstance(r, dict)]


def generate(seed, n, max_tokens, scratch=None, mutants=2, procs=4, grammar=None, target=None, bias=2,
             add_tlc=None):
    """n derivations of `grammar` (default: the real Emboss grammar) of at most max_tokens tokens,
    each followed by `mutants` successive single-token mutations.  Returns a list of
    {"kind": "sentence"|"mutant", "op": ..., "w": [token kinds]} in generation order, duplicates
    removed.  All choices are TLC's (-simulate, seeded)."""
    own = None
    if scratch is None:
        own = Scratch("grammar-gen")
        scratch = own.__enter__()
    try:
        gpath = scratch.file("gen-grammar-%d.json" % (seed % 10**6))
        dump_json(gpath, grammar or emboss_grammar())
        procs = max(1, min(procs, n))
        per = (n + procs - 1) // procs
        env = {"GRAMMAR_FILE": gpath, "MAX_TOKENS": max_tokens, "TARGET_TOKENS": target if target is not None else (3 * max_tokens) // 4,
               "MAX_MUTANTS": mutants, "BIAS": bias, "FAST_MUTATE": "1"}
        depth = 60 * max_tokens + 200

        def job(k):
            return tlc(scratch, "SentenceGen", "gen%d-%d" % (seed % 10**6, k), env=env, workers=1, simulate=per, depth=depth,
                       seed=seed * 131 + k + 1, timeout=1200)
        results = run_parallel([(lambda k=k: job(k)) for k in range(procs)], nproc=procs)
        out, seen = [], set()
        for res in results:
            if add_tlc:
                add_tlc(res)
            for r in _printed(res):
                if "kind" not in r:
                    continue
                key = (r["kind"] == "sentence", tuple(r["w"]))
                if key in seen:
                    continue
                seen.add(key)
                out.append({"kind": r["kind"], "op": r.get("op", ""), "w": list(r["w"]), "ps": sorted(r.get("ps", [])),
                            "pp": sorted(tuple(x) for x in r.get("pp", []))})
        if not any(r["kind"] == "sentence" for r in out):
            raise MachineryError("SentenceGen produced no sentence")
        return out
    finally:
        if own is not None:
            own.__exit__(None, None, None)


def sentences(seed, n, max_tokens, scratch=None, cover=0, stats=None):
    """n (or fewer, after removing duplicates) sentences of the real Emboss grammar, each a list of
    token kinds, at most max_tokens long.  cover > 1: TLC derives cover*n sentences and the n returned are
    picked so that every production some derivation applied is applied by a returned one (greedy cover first,
    then generation order) - a choice among TLC's sentences, not a verdict."""
    want = int(n * max(1, cover) * 1.3) + 4
    if cover <= 1:
        cases = [c for c in generate(seed, want, max_tokens, scratch=scratch, mutants=0, procs=4) if c["kind"] == "sentence"]
        return [c["w"] for c in cases][:n]
    # Derivations from the module start symbol spend most of their token budget on the leading comment / import /
    # attribute lists; to reach every construct, TLC also derives from inner nonterminals and the result is wrapped
    # into a module (a type definition is a module by itself; a field block gets a `struct Xx:` / `bits Xx:` header).
    NL = '"\\n"'
    starts = [("module", [], [], 3), ("struct", [], [], 2), ("bits", [], [], 2), ("enum", [], [], 1), ("external", [], [], 1),
              ("struct-field-block", ['"struct"', "CamelWord", '":"', NL, "Indent"], ["Dedent"], 4),
              ("bits-field-block", ['"bits"', "CamelWord", '":"', NL, "Indent"], ["Dedent"], 2)]
    tot = sum(w for *_x, w in starts)
    cases = []
    for k, (st, pre, suf, wgt) in enumerate(starts):
        sub = generate(seed * 17 + k, max(8, want * wgt // tot), max(8, max_tokens - len(pre) - len(suf)), scratch=scratch, mutants=0,
                       procs=8, grammar=emboss_grammar(start=st))
        for c in sub:
            if c["kind"] == "sentence":
                c["w"] = pre + c["w"] + suf
                c["start"] = st
                cases.append(c)
    # coverage items: productions and (parent production, child production) pairs, i.e. which alternative of a
    # nonterminal was taken in which right-hand side
    items = [set(("p", p) for p in c["ps"]) | set(("pp",) + tuple(x) for x in c["pp"]) for c in cases]
    covered, picked, rest = set(), [], list(range(len(cases)))
    allp = set().union(*items) if items else set()
    while rest and covered != allp and len(picked) < n:
        best = max(rest, key=lambda i: (len(items[i] - covered), -len(cases[i]["w"])))
        if not items[best] - covered:
            break
        covered.update(items[best])
        picked.append(best)
        rest.remove(best)
    for i in rest:
        if len(picked) >= n:
            break
        picked.append(i)
    if stats is not None:
        got = set().union(*[items[i] for i in picked]) if picked else set()
        stats.update({"derived": len(cases), "returned": len(picked),
                      "productions_in_grammar": len(emboss_grammar()["prods"]),
                      "productions_applied_by_some_derivation": len([x for x in allp if x[0] == "p"]),
                      "productions_applied_by_returned": len([x for x in got if x[0] == "p"]),
                      "parent_child_pairs_applied_by_some_derivation": len([x for x in allp if x[0] == "pp"]),
                      "parent_child_pairs_applied_by_returned": len([x for x in got if x[0] == "pp"])})
    return [cases[i]["w"] for i in picked]


def small_grammars(scratch, tag, *, nts, ts, max_rhs, max_prods, min_prods=1, simulate=None, seed=0, add_tlc=None):
    """Grammars from GrammarGen.tla: exhaustive (simulate=None) or a seeded sample.  nts/ts name the
    constant definitions in GrammarGen.tla (NT2/NT3, T2/T3)."""
    consts = {"NTs": "<- " + nts, "Ts": "<- " + ts, "MaxRhs": max_rhs, "MaxProds": max_prods, "MinProds": min_prods,
              "Ordered": "TRUE" if simulate is None else "FALSE"}
    res = tlc(scratch, "GrammarGen", tag, constants=consts, invariants=["NoRepeats", "Increasing", "WithinBounds"],
              workers=1, simulate=simulate, depth=(2 * max_prods + 2) if simulate else None, seed=seed, timeout=1200)
    if add_tlc:
        add_tlc(res)
    out, seen = [], set()
    for g in _printed(res):
        if "prods" not in g:
            continue
        # a grammar is a SET of productions: canonical order for de-duplication of samples
        prods = sorted([p[0], list(p[1])] for p in g["prods"])
        key = json.dumps(prods)
        if key in seen:
            continue
        seen.add(key)
        out.append({"start": g["start"], "prods": prods})
    return out, res


def idiom_grammars(scratch, tag, *, max_parts, same_terminals, add_tlc=None):
    """Grammars from IdiomGen.tla (exhaustive): concatenations of list / option / wrapper idioms."""
    consts = {"MaxParts": max_parts, "SameTerminals": "TRUE" if same_terminals else "FALSE"}
    res = tlc(scratch, "IdiomGen", tag, constants=consts, invariants=["Bounded"], workers=1, timeout=1200)
    if add_tlc:
        add_tlc(res)
    out, seen = [], set()
    for g in _printed(res):
        if "prods" not in g:
            continue
        prods = [[p[0], list(p[1])] for p in g["prods"]]
        key = json.dumps(prods)
        if key in seen:
            continue
        seen.add(key)
        out.append({"start": g["start"], "prods": prods, "shape": list(g.get("shape", []))})
    return out, res
