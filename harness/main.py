"""Entry point: ./check <ID> --tier quick|thorough.

Exit 0: property held on everything explored (KNOWN-FINDING lines allowed).
Exit 1: VIOLATION line(s) printed.   Exit 2: machinery failure (never a verdict).
"""
import argparse
import importlib
import os
import sys
import traceback

from .common import Check, MachineryError


def main(argv):
    ap = argparse.ArgumentParser()
    ap.add_argument("prop")
    ap.add_argument("--tier", default=os.environ.get("VERIF_TIER", "quick"), choices=["quick", "thorough"])
    ap.add_argument("--replay", default=None)
    ap.add_argument("--only", default=None, help="run only the named part(s) of the check, comma separated")
    a = ap.parse_args(argv)
    seed = int(os.environ.get("VERIF_SEED", "0") or 0)
    prop = a.prop.upper()
    try:
        mod = importlib.import_module("harness.%s" % prop.lower())
    except ImportError:
        traceback.print_exc()
        print("no check for %s" % prop, file=sys.stderr)
        return 2
    rerun = None
    if a.replay and not hasattr(mod, "replay"):
        # Checks without a case-level replay re-run themselves with the seed and tier recorded in the replay file (every
        # choice is a function of the seed): the recorded violation shows again exactly when the defect is still there.
        import json
        try:
            with open(a.replay) as f:
                rerun = json.load(f)
        except (OSError, ValueError) as e:
            print("MACHINERY FAILURE (not a verdict): cannot read replay file: %s" % e, file=sys.stderr)
            return 2
        seed = int(rerun.get("seed", seed))
        a.tier = rerun.get("tier") or a.tier
    chk = Check(prop, a.tier, seed, level=getattr(mod, "LEVEL", "model_checking"))
    try:
        if rerun is not None:
            print("replay: re-running %s --tier %s with seed %d (recorded violation: %s)" % (prop, a.tier, seed, rerun.get("key")), file=sys.stderr)
            mod.run(chk, only=None)
        elif a.replay:
            mod.replay(chk, a.replay)
        else:
            only = set(a.only.split(",")) if a.only else None
            mod.run(chk, only=only)
    except MachineryError as e:
        print("MACHINERY FAILURE (not a verdict): %s" % e, file=sys.stderr)
        return 2
    except Exception:
        traceback.print_exc()
        print("MACHINERY FAILURE (not a verdict)", file=sys.stderr)
        return 2
    return chk.finish()


if __name__ == "__main__":
    sys.exit(main(sys.argv[1:]))
