"""Harness-side probes for the pipeline checks (C16, C17, C18).

No source hooks: the driver (compiler/front_end/glue.py) looks its collaborators up as module
attributes at call time, so wrapping those attributes inside *this* process records one event per
action of spec/pipe/Pipeline.tla without touching /repo.  Nothing here decides anything: the
wrappers record what the real code did (projected to positions / flags / hashes); TLC judges.

Event vocabulary (one JSON object each; see spec/pipe/PipelineTrace.tla):
  Start{seed}                                   a fresh interpreter (or fork of a pristine one)
  Compile{tid,main,mode,key}                    a compilation is requested
  Read{file,ok,th}                              the file reader was called
  Mod{file,th}                                  glue.parse_module_text entered
  Tok{groups} Par{groups} Bld{ids}              tokenizer / parser / module_ir.build_ir ran
  ModEnd{groups,ids,imports}                    parse_module_text returned
  Pass{k,name,groups}                           pass k of process_ir returned
  Front{kind,groups}                            parse_emboss_file returned
  Back{groups}                                  header_generator.generate_header returned
  Report{kind,errors,lens,plain,colour,...}     what the caller of the compiler finally holds
  Exception{type,site,stage}                    something escaped
`groups` is a list of [has_synthetic_location, hash] per error group.
"""
import functools
import hashlib
import os
import re
import sys
import traceback

from .common import REPO

if REPO not in sys.path:
    sys.path.insert(0, REPO)
sys.dont_write_bytecode = True

# The binding table pass-index -> (module, attribute) in the documented order of the front end
# (doc/compiler-design.md "Front End vs Back End(s)" stages 4..14; process_ir's own docstring).
PASSES = (
    ("synthetics", "desugar"),
    ("symbol_resolver", "resolve_symbols"),
    ("dependency_checker", "find_dependency_cycles"),
    ("dependency_checker", "set_dependency_order"),
    ("symbol_resolver", "resolve_field_references"),
    ("type_check", "annotate_types"),
    ("type_check", "check_types"),
    ("constraints", "check_early_constraints"),
    ("expression_bounds", "compute_constants"),
    ("attribute_checker", "normalize_and_verify"),
    ("constraints", "check_constraints"),
    ("write_inference", "set_write_methods"),
)

_SAFE = re.compile(r"^[A-Za-z0-9_./-]{1,60}$")


def h(s, n=12):
    if isinstance(s, str):
        s = s.encode("utf-8", "surrogatepass")
    return hashlib.sha1(s).hexdigest()[:n]


def fid(name):
    """Trace-safe, injective-enough token for a file name ('' is the prelude)."""
    if name == "":
        return "<prelude>"
    if isinstance(name, str) and _SAFE.match(name):
        return "n:" + name
    return "h:" + h(repr(name))


def line_lens(text):
    # Named deviation (DESIGN 7.3): the documentation does not define "line"; the lexer and the
    # renderer use Python's str.splitlines(), so positions are judged against the same split.
    return [len(l) for l in text.splitlines()]


def msg_class(text):
    """Which diagnostic this is: its first words without digits/quoted parts (names the finding, not compared)."""
    import re
    t = re.sub(r"'[^']*'|\"[^\"]*\"|[-+]?\d+", "", str(text).split("\n")[0])
    return " ".join(re.findall(r"[A-Za-z$_]+", t)[:5])


def msg_proj(m):
    loc = m.location
    d = {"file": fid(m.source_file), "sev": str(m.severity), "what": msg_class(m.message)}
    if loc is None:
        d.update(l1=-1, c1=-1, l2=-1, c2=-1, syn=False, noloc=True)
        return d
    d.update(l1=int(loc.start.line), c1=int(loc.start.column), l2=int(loc.end.line), c2=int(loc.end.column),
             syn=bool(loc.is_synthetic))
    return d


def group_sig(group):
    try:
        syn = any(bool(m.location.is_synthetic) for m in group)
        parts = []
        for m in group:
            p = msg_proj(m)
            parts.append("%s|%d|%d|%d|%d|%d|%s|%s" % (p["file"], p["l1"], p["c1"], p["l2"], p["c2"], p["syn"], p["sev"], m.message))
        return [syn, h("\n".join(parts))]
    except Exception as e:  # a malformed error object is itself an observation
        return [False, "malformed:" + type(e).__name__]


def groups_sig(errors):
    if not errors:
        return []
    return [group_sig(g) for g in errors]


def exc_site(exc):
    """Stable key of an escaped exception: type + innermost frame inside the repo (file:function)."""
    tb = traceback.extract_tb(exc.__traceback__)
    repo = os.path.realpath(REPO)
    site = None
    for fr in tb:
        fn = os.path.realpath(fr.filename)
        if fn.startswith(repo + os.sep):
            site = "%s:%s" % (os.path.basename(fn), fr.name)
    if site is None and tb:
        site = "%s:%s" % (os.path.basename(tb[-1].filename), tb[-1].name)
    return "%s@%s" % (type(exc).__name__, site or "?")


class Probes:
    """Installs the wrappers once per process; `events` collects while `on` is true."""

    def __init__(self):
        from compiler.front_end import glue, tokenizer, parser, module_ir
        from compiler.back_end.cpp import header_generator
        from compiler.util import error as error_mod, ir_data_utils, ir_data
        from compiler.front_end import emboss_front_end  # noqa: the real import-directory reader
        import importlib
        self.glue, self.tokenizer, self.parser, self.module_ir = glue, tokenizer, parser, module_ir
        self.hg, self.error, self.ir_data_utils, self.ir_data = header_generator, error_mod, ir_data_utils, ir_data
        self.events = []
        self.on = False
        self.in_module = 0      # Tok/Par/Bld are spec actions only inside parse_module_text
        self.ids = []
        self.orig = {}
        self.pass_mods = []
        for modname, attr in PASSES:
            self.pass_mods.append((importlib.import_module("compiler.front_end." + modname), attr))
        self._install()

    def emit(self, ev, **kw):
        if self.on:
            kw["ev"] = ev
            self.events.append(kw)

    def emit_m(self, ev, **kw):
        # the expression parser used by later passes re-enters the tokenizer; those calls are not
        # the Tokenize/Parse/BuildIR actions of a module
        if self.in_module:
            self.emit(ev, **kw)

    def _wrap(self, mod, attr, after, before=None):
        orig = getattr(mod, attr)
        self.orig[(mod.__name__, attr)] = orig

        @functools.wraps(orig)
        def wrapper(*a, **k):
            if not self.on:
                return orig(*a, **k)
            if before:
                before(*a, **k)
            r = orig(*a, **k)
            after(r, *a, **k)
            return r

        wrapper.__wrapped_by_verif__ = True
        setattr(mod, attr, wrapper)

    def _install(self):
        P = self

        def anon_after(r, *a, **k):
            m = re.search(r"(\d+)$", r)
            P.ids.append(int(m.group(1)) if m else -1)

        self._wrap(self.module_ir, "_get_anonymous_field_name", anon_after)
        self._wrap(self.tokenizer, "tokenize", lambda r, *a, **k: P.emit_m("Tok", groups=groups_sig(r[1])))
        self._wrap(self.parser, "parse_module",
                   lambda r, *a, **k: P.emit_m("Par", groups=([[False, "?"]] if r.error else [])))

        def bld_before(*a, **k):
            P.ids = []

        self._wrap(self.module_ir, "build_ir", lambda r, *a, **k: P.emit_m("Bld", ids=list(P.ids)), before=bld_before)

        def mod_before(source_code, file_name):
            P.in_module += 1
            P.emit("Mod", file=fid(file_name), th=h(source_code))

        def mod_after(r, source_code, file_name):
            P.in_module = 0
            ir, _dbg, errors = r
            imports, ids = [], []
            if ir is not None:
                imports = [fid(i.file_name.text) for i in ir.foreign_import]
                ids = anonymous_ids(ir)
            P.emit("ModEnd", groups=groups_sig(errors), ids=ids, imports=imports)

        self._wrap(self.glue, "parse_module_text", mod_after, before=mod_before)
        for k, (mod, attr) in enumerate(self.pass_mods, 1):
            self._wrap(mod, attr, (lambda kk, nm: (lambda r, *a, **kw: P.emit("Pass", k=kk, name=nm, groups=groups_sig(r))))(k, attr))

    def reader(self, files):
        P = self

        def read(name):
            if name in files:
                P.emit("Read", file=fid(name), ok=True, th=h(files[name]))
                return files[name], None
            P.emit("Read", file=fid(name), ok=False, th="")
            return None, ["file '%s' not found" % name]

        return read

    def reader_dirs(self, dirs, collected):
        """The REAL import-directory search (emboss_front_end._find_in_dirs_and_read), recorded."""
        from compiler.front_end import emboss_front_end
        real = emboss_front_end._find_in_dirs_and_read(list(dirs))
        P = self

        def read(name):
            text, errs = real(name)
            if errs is None and text is not None:
                collected[name] = text
                P.emit("Read", file=fid(name), ok=True, th=h(text))
            else:
                P.emit("Read", file=fid(name), ok=False, th="")
            return text, errs

        return read


_ANON = re.compile(r"emboss_reserved_anonymous_field_(\d+)")
_ANON_ANY = re.compile(r"(emboss_reserved_anonymous_field_|EmbossReservedAnonymousField)(\d+)")


def anonymous_ids(node, _out=None):
    """Numbers of the reserved anonymous identifiers *defined* in an IR (by reflection, in IR order)."""
    out = [] if _out is None else _out
    import dataclasses
    if isinstance(node, list):
        for v in node:
            anonymous_ids(v, out)
    elif dataclasses.is_dataclass(node):
        if type(node).__name__ == "NameDefinition":
            if getattr(node, "is_anonymous", None) and node.name is not None and node.name.text:
                m = _ANON.search(node.name.text)
                if m:
                    out.append(int(m.group(1)))
            return out
        for f in dataclasses.fields(node):
            if f.name.startswith("_"):
                continue
            v = getattr(node, f.name, None)
            if v is None or isinstance(v, (str, int, bool)):
                continue
            anonymous_ids(v, out)
    return out


def normalise_anon(text, ids=None):
    """Replace each reserved anonymous identifier number by the order of its first appearance."""
    rank = {}
    for x in _ANON_ANY.findall(text):          # rank = order of first appearance in the text
        rank.setdefault(int(x[1]), len(rank))
    return _ANON_ANY.sub(lambda m: "%s#%d" % (m.group(1), rank[int(m.group(2))]), text), sorted(rank)


def traced_compile(P, files, main, *, tid, mode="inproc", key="", want_outputs=False, back_end=True, render=True,
                   prelude_text=None, dirs=None):
    """Run the real front end (+ back end) on `files`, recording events.  Returns (events, outputs)."""
    P.events = []
    P.on = True
    P.in_module = 0
    out = {}
    stage = "front"
    try:
        P.emit("Compile", tid=tid, main=fid(main), mode=mode, key=key)
        try:
            if dirs is not None:
                files = {}
                reader = P.reader_dirs(dirs, files)
            else:
                reader = P.reader(files)
            if mode == "front":
                back_end = False
            ir, dbg, errors = P.glue.parse_emboss_file(main, reader)
            P.emit("Front", kind=("errors" if errors else "ir"), groups=[g[1] for g in groups_sig(errors)],
                   has_ir=ir is not None)
            header = None
            if not errors and not back_end and want_outputs:
                out["ir_json"] = P.ir_data_utils.IrDataSerializer(ir).to_json()
            if not errors and back_end:
                stage = "back"
                if mode == "split":
                    # the documented two-program path, in-process: serialise, re-read, generate
                    js = P.ir_data_utils.IrDataSerializer(ir).to_json()
                    P.emit("Serialize", n=len(js))
                    ir2 = P.ir_data_utils.IrDataSerializer.from_json(P.ir_data.EmbossIr, js)
                    P.emit("Deserialize", n=len(js))
                    if want_outputs:
                        out["ir_json"] = js
                    header, errors = P.hg.generate_header(ir2, P.hg.Config(include_enum_traits=True))
                else:
                    if want_outputs:
                        out["ir_json"] = P.ir_data_utils.IrDataSerializer(ir).to_json()
                    header, errors = P.hg.generate_header(ir, P.hg.Config(include_enum_traits=True))
                P.emit("Back", groups=groups_sig(errors), has_header=header is not None)
            rep = {"kind": "errors" if errors else "done", "key": key,
                   "anon": [i for e in P.events if e["ev"] == "ModEnd" for i in e["ids"]]}
            if errors:
                stage = "report"
                rep["errors"] = [[msg_proj(m) for m in g] for g in errors]
                rep["groups"] = [g[1] for g in groups_sig(errors)]
                named = {m.source_file for g in errors for m in g}
                srcs = dict(files)
                if prelude_text is not None:
                    srcs[""] = prelude_text
                rep["lens"] = [[fid(n), line_lens(srcs[n])] for n in sorted(named, key=repr) if n in srcs]
                for colour, fld in ((False, "plain"), (True, "colour")):
                    if not render:
                        rep[fld] = "ok"
                        continue
                    try:
                        txt = P.error.format_errors(errors, srcs, colour)
                        rep[fld] = "ok" if isinstance(txt, str) else "not-a-string"
                        if want_outputs and not colour:
                            out["stderr"] = txt
                    except Exception as e:
                        rep[fld] = exc_site(e)
            else:
                rep["errors"] = []
                rep["groups"] = []
                rep["lens"] = []
                rep["plain"] = rep["colour"] = "ok"
                if want_outputs:
                    out["header"] = header
            for k in ("ir_json", "header", "stderr"):
                txt = out.get(k) if want_outputs else None
                if txt is None:
                    rep[k + "_raw"] = rep[k + "_norm"] = "-"
                else:
                    norm, _ = normalise_anon(txt)
                    rep[k + "_raw"] = h(txt, 16)
                    rep[k + "_norm"] = h(norm, 16)
            P.emit("Report", **rep)
        except RecursionError as e:
            P.emit("Exception", type="RecursionError", site=exc_site(e), stage=stage)
        except Exception as e:
            P.emit("Exception", type=type(e).__name__, site=exc_site(e), stage=stage, msg=str(e)[:200])
    finally:
        P.on = False
    return P.events, out
