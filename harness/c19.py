"""C19 -- enum names, values and C++ representation match the definition.

Parts (``--only``): mc, bind, selftest.

mc    spec/enum/EnumMC: EnumSem.tla model-checked exhaustively on a small family of enums.
bind  EnumGen.tla (TLC) emits enum definitions: the exhaustive single-value matrix landmark x
      maximum_bits x is_signed and seeded multi-value enums (duplicates, enum_case at module / enum /
      value level, name shapes).  The harness renders them to .emb, compiles them with the REAL
      compiler (accepted / rejected per enum), builds C++ drivers over the REAL generated headers for
      the accepted ones and records underlying type, enumerators (SFINAE probes of both spellings),
      TryToGetEnumFromName, TryToGetNameFromEnum, EnumIsKnown, operator<<, and writes/reads through
      enum fields.  EnumCheck.tla (TLC) recomputes every expectation from the definition and compares.
selftest  one recorded observation is corrupted; EnumCheck must flag it.
"""
import copy
import os

from . import enum_gen
from .common import SPEC, MachineryError, NCPU, Scratch, run_tlc

LEVEL = "model_checking"
ENUM_DIR = os.path.join(SPEC, "enum")

RULE = ("TLC (EnumGen.tla) enumerates the full single-value matrix {19 landmarks -2^63..2^64-1} x maximum_bits "
        "{absent,1,7,8,9,16,31,32,33,63,64} x is_signed {absent,true,false} (627 enums) plus seeded enums with 1-4 values "
        "(duplicate values, in- and out-of-range values, enum_case SHOUTY/kCamel/both at module, enum and value level, "
        "names with digits, repeated and trailing underscores); each is compiled by the real compiler (accept/reject "
        "compared with the documented range rule) and the accepted ones are driven in C++.  Non-trivial: enums that "
        "have duplicate values, a non-default enum_case, an explicit attribute, or are rejected.")


def _mc(chk, sc):
    res = run_tlc(os.path.join(ENUM_DIR, "EnumMC.tla"), os.path.join(ENUM_DIR, "EnumMC.cfg"), workers=4, timeout=3000,
                  coverage=True, env={"MC_SIZE": chk.tier}, metadir=sc.sub("meta-enummc"))
    chk.add_tlc(res, part="mc-enumsem")
    if not res.clean:
        chk.violation("mc:enumsem-design", "EnumMC: an invariant of EnumSem.tla fails on the model itself\n" + res.error_trace_tail(60))
    if res.coverage().get("Pick", (0, 0))[1] == 0:
        raise MachineryError("EnumMC is vacuous")


def _describe(m):
    d = m.get("def", {})
    vals = ", ".join("%s=%s%s" % ("".join(v["n"]), enum_gen.LANDMARKS[v["v"] - 1],
                                  (" [%s]" % ",".join(v["cases"])) if v["cases"] else "") for v in d.get("vals", []))
    return ("enum #%s {%s} is_signed=%s maximum_bits=%s enum_case(enum)=%s enum_case(module)=%s: %s (%s) -- "
            "specification says %s, implementation gave %s" % (
                m.get("id"), vals, d.get("signedAttr"), d.get("maxBitsAttr") or "default", d.get("enumCases"),
                d.get("moduleCases"), m["clause"], m.get("what"), m.get("expected"), m.get("got")))


def _nontrivial(case):
    d = case["def"]
    vs = [v["v"] for v in d["vals"]]
    return (len(set(vs)) < len(vs) or d["enumCases"] or d["moduleCases"] or any(v["cases"] for v in d["vals"])
            or d["signedAttr"] != "none" or d["maxBitsAttr"] != 0 or not case["predictedAcceptable"])


def _sizes(tier):
    """(number of seeded enums, drive every k-th acceptable matrix enum, enums per translation unit,
    every k-th driven enum also gets enum fields)"""
    return (500, 5, 40, 3) if tier == "quick" else (6000, 1, 60, 1)


def _bind(chk, sc, parts, only_id=None):
    n_random, every, per_tu, fields_every = _sizes(chk.tier)
    d = sc.sub("bind")
    cases, gsum, gres = enum_gen.generate(d, n_random, chk.seed, every, fields_every)
    chk.add_tlc(gres, part="generator")
    if only_id is not None:
        cases = [c for c in cases if c["id"] == only_id]
        if not cases:
            raise MachineryError("replay: enum %s is not generated with this seed/tier" % only_id)
        # an enum that was generated without C++ probes replays its accept/reject verdict only
    verdict = enum_gen.decide_acceptance(cases, d)
    obs, info = enum_gen.drive(cases, verdict, d, per_tu=per_tu)
    for cc, ids, err in info["build_failures"]:
        # an accepted enum whose generated header (or our probes on it) does not build: report, keyed
        chk.violation("driver-build-failed", "C++ driver over the generated header of accepted enums %s does not build/run:\n%s" % (
            ids[:10], (err or "")[-1500:]), dict(ids=ids))
    records = enum_gen.make_records(cases, verdict, obs)
    results, mism, summ = enum_gen.check(records, d, min(enum_gen.max_procs(), 12))
    for r in results:
        chk.add_tlc(r, part="binding")
    chk.traces = len(records)
    chk.evaluations = sum(s["checks"] for s in summ)
    for c in cases:
        if _nontrivial(c):
            chk.note_nontrivial(c["id"])
    chk.extra["generated"] = dict(total=gsum["total"], emitted=gsum["emitted"], driven_in_cpp=len(obs),
                                  accepted=sum(v["accepted"] for v in verdict.values()),
                                  rejected=sum(1 - v["accepted"] for v in verdict.values()),
                                  translation_units=info["translation_units"])
    for m in mism:
        chk.violation(m["clause"], _describe(m), m)
    for m in mism[:2]:
        chk.sample(m)
    for r in records[:1] + [r for r in records if r["hasObs"]][:2]:
        chk.sample(dict(id=r["id"], definition=r["def"], accepted=r["accepted"], ubits=r["ubits"], usigned=r["usigned"],
                        names=r["names"][:3], values=r["values"][:3]))
    if "selftest" in parts:
        _selftest(chk, sc, records)


def _selftest(chk, sc, records):
    """Corrupt one observation in three different places; EnumCheck must flag each."""
    d = sc.sub("selftest")
    base = next((r for r in records if r["hasObs"] and r["accepted"] and len(r["def"]["vals"]) >= 1 and r["values"]), None)
    if base is None:
        raise MachineryError("self-test: no driven enum available")
    a = copy.deepcopy(base)
    a["accepted"] = 0
    a["hasObs"] = 0
    b = copy.deepcopy(base)
    b["idents"][0]["v"][0] ^= 1
    c = copy.deepcopy(base)
    c["values"][0]["known"] ^= 1
    for i, r in enumerate((a, b, c)):
        r["id"] = 900000 + i
    results, mism, summ = enum_gen.check([a, b, c], d, 1)
    for r in results:
        chk.add_tlc(r, part="selftest")
    flagged = {m["id"] for m in mism}
    if flagged != {900000, 900001, 900002}:
        raise MachineryError("self-test failed: corrupted records flagged = %s" % sorted(flagged))
    chk.extra["selftest"] = "3 corrupted records (verdict, enumerator value, EnumIsKnown) all rejected by TLC"


def run(chk, only=None):
    parts = only or {"mc", "bind", "selftest"}
    with Scratch("c19") as sc:
        if "mc" in parts:
            _mc(chk, sc)
        if "bind" in parts or "selftest" in parts:
            _bind(chk, sc, parts)
        chk.rule = RULE
        chk.exhaustive = False
        chk.assumptions += [
            "values are drawn from 19 symbolic 64-bit landmarks and their +-1 neighbours",
            "named deviation: the underlying C++ type is modelled as the least of 8/16/32/64 bits >= maximum_bits "
            "(documentation only requires 'wide enough'); reported under its own clause underlying-width-not-least",
            "operator<< is only constrained for named values (prints the Emboss name); unnamed values are undocumented",
            "enums whose kCamelCase spellings would collide are not generated",
            "named deviation: in kCamelCase a word that starts with a digit has all its letters lower-cased (X_2Y -> kX2y); "
            "the design note's 'first letter of each word stays capitalised' is ambiguous for such words",
            "enum fields are probed at width maximum_bits and one narrower width, inside a little-endian 64-bit bits container",
        ]


def replay(chk, path):
    """Regenerate the enum of a recorded violation (same seed and tier) and run only it through the pipeline."""
    import json
    with open(path) as f:
        rec = json.load(f)
    case = rec["case"]
    chk.seed = rec.get("seed", chk.seed)
    with Scratch("c19-replay") as sc:
        _bind(chk, sc, set(), only_id=case["id"])
