"""C12 -- names resolve to the one lexically visible definition, or the module is rejected.

spec/scope/Scope.tla       scope tree, visibility, Resolve, canonical names, the three invariants
spec/scope/ScopeMC.tla     every small scope tree: CanonicalNamesUnique, ResolveIsLexical, AbbreviationsPrivate
spec/scope/ScopeGen.tla    TLC builds seeded scope trees + reference sites with known intent
spec/scope/ScopeCheck.tla  TLC decides every recorded compile against Scope

parts: mc, bind, selftest     (./check C12 --only bind)
"""
import json
import multiprocessing
import os
import sys
import time

from .common import NCPU, SPEC, MachineryError, Scratch, chunks, run_parallel, run_tlc, write_cfg

LEVEL = "model_checking"
AREA = os.path.join(SPEC, "scope")
NPROC = int(os.environ.get("VERIF_NPROC", "0")) or max(2, min(8, NCPU // 2))
_POOL = None


def _dbg(msg):
    if os.environ.get("VERIF_DEBUG"):
        print("[c12] " + msg, file=sys.stderr)


# ------------------------------------------------------------------------------------------------

def _mc(chk, sc):
    rich = chk.tier == "thorough"
    cfg = sc.file("scopemc.cfg")
    write_cfg(cfg, invariants=["Inv_All"],
              constants={"MaxDefs": 2, "MaxDepth": 2, "Rich": "TRUE" if rich else "FALSE"})
    res = run_tlc(os.path.join(AREA, "ScopeMC.tla"), cfg, workers=min(4, NPROC) if not rich else NPROC,
                  coverage=True, timeout=3000, metadir=os.path.join(sc.sub("meta"), "mc"))
    chk.add_tlc(res, part="mc-scope")
    if not res.clean:
        chk.violation("spec-mc:%s" % (res.invariant_violated or ["?"])[0],
                      "ScopeMC: %s violated (design-level)\n%s" % (res.invariant_violated, res.error_trace_tail(60)), {})
    cov = res.coverage()
    acts = ("AddType", "AddField", "AddParam", "AddVal", "AddVirt", "AddAnon", "AddAttr")
    chk.extra["mc_action_coverage"] = {a: cov.get(a, (0, 0))[1] for a in acts}
    chk.extra["mc_actions_never_taken"] = [a for a in acts if not cov.get(a, (0, 0))[1]]
    # vacuity: every failure class must be reachable in the model (each Never_* must be violated)
    if chk.tier == "thorough" or os.environ.get("VERIF_VACUITY"):
        nev = ["Never_ok", "Never_missing", "Never_ambiguous", "Never_notfield", "Never_notcomposite",
               "Never_arraymember", "Never_indirect", "Never_dup"]
        unreached = []

        def one(n):
            c = sc.file("vac-%s.cfg" % n)
            write_cfg(c, invariants=[n], constants={"MaxDefs": 2, "MaxDepth": 2, "Rich": "FALSE"})
            r = run_tlc(os.path.join(AREA, "ScopeMC.tla"), c, workers=1, timeout=3000,
                        metadir=os.path.join(sc.sub("meta"), "vac-" + n))
            return n, r
        for n, r in run_parallel([lambda n=n: one(n) for n in nev], nproc=min(4, NPROC)):
            if n not in r.invariant_violated:
                unreached.append(n)
        chk.extra["mc_classes_unreached"] = unreached


# ------------------------------------------------------------------------------------------------

def _gen(sc, chk, ntrees, nproc):
    cfg = sc.file("gen.cfg")
    write_cfg(cfg)
    per = (ntrees + nproc - 1) // nproc

    def one(k):
        out = sc.file("progs-%d.ndjson" % k)
        env = {"GEN_SALT": chk.seed % 1000, "GEN_LO": k * per, "GEN_CNT": min(per, ntrees - k * per), "GEN_OUT": out,
               "GEN_SITE_MOD": 8, "GEN_MAX_FAIL": 8}
        res = run_tlc(os.path.join(AREA, "ScopeGen.tla"), cfg, workers=1, env=env, timeout=2400,
                      metadir=os.path.join(sc.sub("meta"), "gen-%d" % k))
        told = [j["emitted"] for j in res.printed_json() if "emitted" in j]
        if not res.completed or len(told) != 1:
            raise MachineryError("ScopeGen did not complete:\n" + res.error_trace_tail(30))
        with open(out) as f:
            got = [json.loads(l) for l in f if l.strip()]
        if len(got) != told[0]:
            raise MachineryError("ScopeGen wrote %d programs but reports %d" % (len(got), told[0]))
        return res, got

    def fixed():
        # the whole (scope x slot x path) site space of one fixed tree (thorough), every 6th site (quick)
        out = sc.file("progs-fixed.ndjson")
        env = {"GEN_SALT": chk.seed % 1000, "GEN_LO": 0, "GEN_CNT": 1, "GEN_OUT": out, "GEN_FIXED": 1,
               "GEN_SITE_MOD": 6 if chk.tier == "quick" else 1, "GEN_MAX_FAIL": 100000}
        res = run_tlc(os.path.join(AREA, "ScopeGen.tla"), cfg, workers=1, env=env, timeout=2400,
                      metadir=os.path.join(sc.sub("meta"), "gen-fixed"))
        told = [j["emitted"] for j in res.printed_json() if "emitted" in j]
        if not res.completed or len(told) != 1:
            raise MachineryError("ScopeGen (fixed tree) did not complete:\n" + res.error_trace_tail(30))
        with open(out) as f:
            return res, [json.loads(l) for l in f if l.strip()]

    results = run_parallel([fixed] + [lambda k=k: one(k) for k in range(nproc) if k * per < ntrees], nproc=NPROC)
    progs = []
    for res, got in results:
        chk.add_tlc(res, part="gen")
        progs += got
    return progs


def _pool():
    global _POOL
    if _POOL is None:
        from . import scope_run
        scope_run._init()          # import the compiler once, then fork
        _POOL = multiprocessing.get_context("fork").Pool(NPROC, initializer=scope_run._init)
    return _POOL


def _close_pool():
    global _POOL
    if _POOL is not None:
        _POOL.terminate()
        _POOL.join()
        _POOL = None


def _observe(progs):
    from . import scope_run
    out = {}
    for res in _pool().imap(scope_run.run_batch, [c for c in chunks(progs, NPROC * 6) if c], chunksize=1):
        for r in res:
            out[r["id"]] = r
    return out


def _decide(sc, name, records, nshards=None):
    if not records:
        return [], [], [], []
    cfg = sc.file("check.cfg")
    write_cfg(cfg)
    nshards = nshards or max(1, min(NPROC, len(records) // 150 + 1))
    shards = [s for s in chunks(records, nshards) if s]

    def one(k, shard):
        path = sc.file("recs-%s-%d.ndjson" % (name, k))
        with open(path, "w") as f:
            for r in shard:
                f.write(json.dumps(r, separators=(",", ":")) + "\n")
        res = run_tlc(os.path.join(AREA, "ScopeCheck.tla"), cfg, workers=1, env={"RECS_FILE": path},
                      metadir=os.path.join(sc.sub("meta"), "chk-%s-%d" % (name, k)), timeout=2400)
        if not res.completed:
            raise MachineryError("ScopeCheck did not complete:\n" + res.error_trace_tail(40))
        return res

    results = run_parallel([lambda k=k, s=s: one(k, s) for k, s in enumerate(shards)], nproc=NPROC)
    fails, sums, tags = [], [], []
    for res in results:
        for j in res.printed_json():
            if j.get("summary"):
                sums.append(j)
            elif "tag" in j:
                tags.append(j["tag"])
            else:
                fails.append(j)
    if sum(s["records"] for s in sums) != len(records):
        raise MachineryError("ScopeCheck consumed %d of %d records" % (sum(s["records"] for s in sums), len(records)))
    return fails, sums, tags, results


def _bind(chk, sc):
    ntrees = 90 if chk.tier == "quick" else 600
    t0 = time.time()
    progs = _gen(sc, chk, ntrees, 3 if chk.tier == "quick" else NPROC)
    _dbg("gen: %d programs from %d trees %.1fs" % (len(progs), ntrees, time.time() - t0))
    t0 = time.time()
    obs = _observe(progs)
    _dbg("compile: %.1fs" % (time.time() - t0))
    records = [dict(p, obs=obs[p["id"]]["obs"]) for p in progs]
    t0 = time.time()
    fails, sums, tags, res = _decide(sc, "bind", records)
    _dbg("decide: %.1fs" % (time.time() - t0))
    for r in res:
        chk.add_tlc(r, part="check")
    byid = {r["id"]: r for r in records}
    for f in fails:
        rec = byid[f["id"]]
        files = obs[f["id"]]["files"]
        chk.violation(f["clause"],
                      "C12 program %s: clause %s -- expected %s, got %s\n%s" % (
                          f["id"], f["clause"], f["expected"][:300], f["got"][:300],
                          "\n".join("--- %s\n%s" % kv for kv in files.items())[:1500]),
                      {"record": rec, "rendered": files})
    stats, tagc = {}, {}
    for s in sums:
        for k, v in s["stats"].items():
            stats[k] = stats.get(k, 0) + v
    for t in tags:
        tagc[t] = tagc.get(t, 0) + 1
    chk.traces += len(records)
    chk.evaluations += stats.get("refs-ok", 0) + stats.get("refs-bad", 0)
    chk.extra["program_stats"] = {"trees": ntrees, "programs": len(records), **stats}
    chk.extra["site_classes"] = dict(sorted(tagc.items()))
    chk.extra["late_pass_crashes_not_judged_here"] = sum(1 for r in records if r["obs"].get("late_exc"))
    for t in tagc:
        chk.note_nontrivial(t)
    for r in records[:1] + [x for x in records if x["what"] == "badsite"][:1]:
        chk.sample({"id": r["id"], "what": r["what"], "rendered": obs[r["id"]]["files"],
                    "errors": r["obs"]["errors"], "refs": r["obs"]["refs"][:6]})
    return records


def _selftest(chk, sc, records):
    """Corrupt recorded observations; ScopeCheck must reject each."""
    ok = [r for r in records if r["what"] == "oksites" and not r["obs"]["errors"] and not r["obs"]["exc"] and r["obs"]["refs"]]
    badp = [r for r in records if r["what"] == "badsite" and r["obs"]["errors"]]
    if not ok or not badp:
        raise MachineryError("selftest: not enough material")
    cp = lambda r: json.loads(json.dumps(r))
    bad = []
    r = cp(ok[0]); r["id"] = "st-target"
    k = next(i for i, x in enumerate(r["obs"]["refs"]) if r["defs"][x["at"] - 1]["site"]) if any(
        r["defs"][x["at"] - 1]["site"] for x in r["obs"]["refs"]) else 0
    r["obs"]["refs"][k]["canons"][-1] = r["obs"]["refs"][k]["canons"][-1][:-1] + ["nope"]
    bad.append((r, "wrong-target"))
    r = cp(ok[0]); r["id"] = "st-dupcanon"; r["obs"]["defs"].append(cp(r["obs"]["defs"][0])); bad.append((r, "canonical-not-unique"))
    r = cp(ok[0]); r["id"] = "st-back"; r["obs"]["defs"][0]["found"] = [1, 1]; bad.append((r, "canonical-leads-elsewhere"))
    r = cp(ok[0]); r["id"] = "st-defs"; del r["obs"]["defs"][0]; bad.append((r, "definitions"))
    r = cp(ok[0]); r["id"] = "st-spurious"; r["obs"]["errors"] = [{"at": 14, "notes": [], "line": 3}]; bad.append((r, "spurious-error"))
    r = cp(badp[0]); r["id"] = "st-accepted"; r["obs"]["errors"] = []; bad.append((r, "not-rejected"))
    r = cp(badp[0]); r["id"] = "st-elsewhere"; r["obs"]["errors"][0]["at"] = 12; bad.append((r, "error-at-wrong-definition"))
    fails, _, _, res = _decide(sc, "selftest", [b[0] for b in bad], nshards=1)
    for x in res:
        chk.add_tlc(x, part="selftest")
    flagged = {}
    for f in fails:
        flagged.setdefault(f["id"], set()).add(f["clause"].split(":")[0])
    for r, clause in bad:
        if clause not in flagged.get(r["id"], set()):
            raise MachineryError("selftest: corrupted record %s not rejected as %s (got %s)" % (
                r["id"], clause, sorted(flagged.get(r["id"], set()))))
    chk.extra["selftest_corruptions_rejected"] = len(bad)


def run(chk, only=None):
    want = lambda p: only is None or p in only
    with Scratch("c12") as sc:
        try:
            if want("bind") or want("selftest"):
                _pool()
            jobs = []
            if want("mc"):
                jobs.append(lambda: _mc(chk, sc))

            def bind():
                if want("bind") or want("selftest"):
                    recs = _bind(chk, sc)
                    if want("selftest"):
                        _selftest(chk, sc, recs)
            jobs.append(bind)
            run_parallel(jobs, nproc=2)
        finally:
            _close_pool()
    chk.rule = ("TLC (ScopeGen) builds seeded scope trees over the prelude, an imported module and the main module: "
                "types at module level or nested (depth <= 2), fields with abbreviations and types written Type / "
                "Outer.Inner / imp.Type, arrays, aliases, parameters, enum values, an anonymous bits, an inline enum, "
                "names from pools of 3-4 per kind so that sibling / nested / imported / prelude reuse and duplicates "
                "occur; on each tree a hash keeps 1/8 of all (scope x slot x form x path) reference sites, slots = "
                "field type, start, size, condition, array length, let value, enum value, [requires] on a field "
                "(this) and on the structure; accepted sites are compiled together, every rejected site alone.  The "
                "real front end runs to just before annotate_types; TLC (ScopeCheck) decides: accepted <=> Scope "
                "accepts; every reference bound to the expected canonical name(s); definitions = expected canonical "
                "names, unique, find_object leads back; a rejection is reported at a definition Scope rejects.  "
                "Non-trivial = distinct (class, form, slot) of a site.")
    chk.assumptions += [
        "failure kind is compared by the definition (source line / parameter columns) the primary message points at, never by message text",
        "Type.abbreviation (an abbreviation reached through a static path) is resolved by symbol_resolver and only rejected by a later pass ('static references to physical fields'); the check accepts a rejection at the same definition by the complete run (named deviation: rejected-late)",
        "an inline type's definition shares its field's line; an error there is attributed to either",
        "anonymous bits type names are normalised (EmbossReservedAnonymousField<N> -> %anon); the anonymous field itself is not modelled",
        "members reached after a dot: fields and virtual fields of the field's type (parameters of the type are not generated as members)",
    ]
    chk.exhaustive = False


def replay(chk, path):
    """Re-run one recorded violation with the current tree."""
    with open(path) as f:
        rp = json.load(f)
    prog = {k: v for k, v in rp["case"]["record"].items() if k != "obs"}
    with Scratch("c12r") as sc:
        try:
            _pool()
            obs = _observe([prog])
            rec = dict(prog, obs=obs[prog["id"]]["obs"])
            fails, _, _, res = _decide(sc, "replay", [rec], nshards=1)
            for r in res:
                chk.add_tlc(r, part="replay")
            chk.traces = 1
            for fl in fails:
                chk.violation(fl["clause"], "C12 replay %s: clause %s -- expected %s, got %s" % (
                    prog["id"], fl["clause"], fl["expected"][:300], fl["got"][:300]),
                    {"record": rec, "rendered": obs[prog["id"]]["files"]})
        finally:
            _close_pool()
    chk.rule = "replay of " + path
