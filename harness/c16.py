"""C16 - the compiler is total: any input yields output or well-formed located errors.

spec/pipe/Pipeline.tla is a monitor of the compiler process (import loop, parse cache, twelve passes
with early exit and deferred synthetic errors, back end, report).  This check
  (MC) model-checks the documented design against the monitor over small constants, and checks that
       defective variants of the design are caught (PipelineMC);
  (G)  replays TLC-enumerated pass-outcome scenarios into the REAL glue.process_ir over stub passes;
  (V)  records one event per spec action from the REAL front end / back end for inputs none of which
       is chosen to be valid, and from `embossc` subprocesses, and has TLC (PipelineTrace) evaluate
       Total, PassOrder, EarlyExit, deferred errors, ErrorsWellFormed and rendering on every step.
Python renders inputs, runs the real code and records; TLC decides.
"""
import json
import os
import re
import subprocess
import sys
import time

from .common import REPO, VERIF, NCPU, Scratch, MachineryError, run_parallel
from . import pipe_tlc, pipe_worker, pipe_inputs

LEVEL = "model_checking"

QUICK = dict(bytes=400, soup=500, gram=900, valid=1100, nest=60, imports=300, xmod=168, semsoup=1500, mut=1800, trunc_per_file=16, sent=300,
             cli=20, maxg=1, mc_compiles=1, workers=12)
THOROUGH = dict(bytes=6000, soup=10000, gram=30000, valid=40000, nest=400, imports=6000, xmod=2520, semsoup=40000, mut=60000, trunc_per_file=10 ** 9, sent=6000,
                cli=120, maxg=2, mc_compiles=2, workers=14)


def plan_jobs(cfg, seed):
    jobs = []
    corpus = pipe_inputs.load_corpus()
    mains = pipe_inputs.corpus_mains(corpus)
    for i in range(0, len(mains), 6):
        jobs.append({"op": "c16", "fam": "corpus", "seed": seed, "names": mains[i:i + 6]})
    for fam, chunk in (("bytes", 50), ("soup", 50), ("gram", 40), ("valid", 40), ("nest", 10), ("imports", 20), ("xmod", 21), ("semsoup", 50), ("mut", 25)):
        n = cfg[fam]
        for s in range(0, n, chunk):
            jobs.append({"op": "c16", "fam": fam, "seed": seed, "start": s, "count": min(chunk, n - s)})
    # truncations at token boundaries: a stride per file such that about trunc_per_file points are hit
    # (thorough: every boundary); the offset rotates with the seed
    for name in mains:
        ntok = max(1, len(re.findall(r"\S+", corpus[name])) * 2)
        step = max(1, ntok // cfg["trunc_per_file"]) if cfg["trunc_per_file"] < 10 ** 8 else 1
        if step == 1:
            for st in range(4):
                jobs.append({"op": "c16", "fam": "trunc", "seed": seed, "name": name, "start": st, "step": 4})
        else:
            jobs.append({"op": "c16", "fam": "trunc", "seed": seed, "name": name, "start": seed % step, "step": step})
    return jobs, corpus


def interleave(jobs):
    # spread the families over the workers (cheap ones and expensive ones mixed)
    import random
    r = random.Random(12345)
    jobs = list(jobs)
    r.shuffle(jobs)
    return jobs


_TB_FILE = re.compile(r'^\s*File "([^"]+)", line \d+, in (\S+)', re.M)


def traceback_site(stderr):
    if "Traceback (most recent call last)" not in stderr:
        return ""
    repo = os.path.realpath(REPO)
    site = None
    for m in _TB_FILE.finditer(stderr):
        fn = os.path.realpath(m.group(1))
        if fn.startswith(repo + os.sep) or fn == os.path.join(repo, "embossc"):
            site = "%s:%s" % (os.path.basename(fn), m.group(2))
    last = stderr.strip().splitlines()[-1] if stderr.strip() else ""
    typ = last.split(":")[0].split(".")[-1] if last else "?"
    return "%s@%s" % (typ, site or "?")


def cli_cases(cfg, seed, corpus):
    """(tid, {name: bytes}, main) for the embossc entry point."""
    cases = []
    n = cfg["cli"]
    fixed = [
        ("cli:ok", {"m.emb": b"struct Foo:\n  0 [+1]  UInt  x\n"}, "m.emb"),
        ("cli:error", {"m.emb": b"struct Foo:\n  0 [+1]  UInt  x\n  0 [+1]  UInt  x\n"}, "m.emb"),
        ("cli:missing-main", {}, "m.emb"),
        ("cli:missing-import", {"m.emb": b'import "zz.emb" as zz\nstruct Foo:\n  0 [+1]  UInt  x\n'}, "m.emb"),
        ("cli:empty", {"m.emb": b""}, "m.emb"),
        ("cli:not-utf8", {"m.emb": b"struct Foo:\n  -- caf\xe9\n  0 [+1]  UInt  x\n"}, "m.emb"),
    ]
    cases += fixed
    mains = pipe_inputs.corpus_mains(corpus)
    k = 0
    while len(cases) < n:
        r = pipe_inputs.rng_for(seed, "cli", k)
        fam = ["gram", "soup", "bytes", "trunc", "corpus"][k % 5]
        if fam == "gram":
            files = {"m.emb": pipe_inputs.gen_program(r).encode("utf-8")}
            main = "m.emb"
        elif fam == "soup":
            files = {"m.emb": pipe_inputs.gen_soup(r).encode("utf-8")}
            main = "m.emb"
        elif fam == "bytes":
            files = {"m.emb": pipe_inputs.gen_bytes(r).encode("utf-8", "surrogatepass") if r.random() < 0.5
                     else bytes(r.randrange(256) for _ in range(r.choice([1, 10, 100])))}
            main = "m.emb"
        elif fam == "trunc":
            name = r.choice(mains)
            t = corpus[name]
            lines = t.split("\n")
            cut = r.randrange(1, len(lines))
            files = {kk: v.encode("utf-8") for kk, v in corpus.items()}
            files[name] = "\n".join(lines[:cut]).rstrip("\n").encode("utf-8")
            main = name
        else:
            name = mains[(seed + k) % len(mains)]
            files = {kk: v.encode("utf-8") for kk, v in corpus.items()}
            main = name
        cases.append(("cli:%s:%d" % (fam, k), files, main))
        k += 1
    return cases[:n]


def run_cli_case(sc, tid, files, main):
    d = sc.sub("cli-" + re.sub(r"[^A-Za-z0-9]+", "_", tid))
    src = os.path.join(d, "src")
    for name, data in files.items():
        p = os.path.join(src, name)
        os.makedirs(os.path.dirname(p), exist_ok=True)
        with open(p, "wb") as f:
            f.write(data)
    os.makedirs(src, exist_ok=True)
    outdir = os.path.join(d, "out")
    cwd = os.path.join(d, "cwd")
    os.makedirs(cwd, exist_ok=True)
    env = dict(os.environ)
    env["PYTHONDONTWRITEBYTECODE"] = "1"
    env["PYTHONHASHSEED"] = "0"
    cmd = [sys.executable, os.path.join(REPO, "embossc"), "--color-output", "never", "--import-dir", src,
           "--output-path", outdir, main]
    try:
        p = subprocess.run(cmd, cwd=cwd, env=env, stdout=subprocess.PIPE, stderr=subprocess.PIPE, timeout=300)
        exit_, stderr = p.returncode, p.stderr.decode("utf-8", "replace")
        tb = traceback_site(stderr)
    except subprocess.TimeoutExpired:
        exit_, stderr, tb = 124, "", "Timeout@embossc"
    header = os.path.join(outdir, main + ".h")
    return {"ev": "Cli", "tid": tid, "key": "", "mode": "embossc", "seed": "0", "exit": exit_, "tb": tb,
            "has_header": os.path.exists(header), "stderr_empty": stderr.strip() == "",
            "kind": "", "anon": [], "ir_json_raw": "-", "ir_json_norm": "-", "header_raw": "-", "header_norm": "-",
            "stderr_raw": "-", "stderr_norm": "-"}, stderr


def report_verdicts(chk, verdicts, seed, payload_for):
    """Turn TLC's printed verdicts into violations with stable keys (one replay payload per key)."""
    done = set()
    for v in verdicts:
        for clause, site in v["clauses"]:
            key = pipe_tlc.key_of(clause, site)
            payload = None
            if key not in done:
                done.add(key)
                payload = payload_for(v)
            chk.violation(key, "%s at %s  [compilation %s, event %s, line %s of its stream]"
                          % (clause, site, v.get("tid"), v.get("ev"), v.get("line")), payload)


def run(chk, only=None):
    cfg = dict(QUICK if chk.tier == "quick" else THOROUGH)
    scale = float(os.environ.get("VERIF_C16_SCALE", "1") or 1)     # development aid: shrink the input families
    if scale != 1:
        for k in ("bytes", "soup", "gram", "valid", "nest", "imports", "xmod", "semsoup", "mut", "sent", "cli", "trunc_per_file"):
            cfg[k] = max(1, int(cfg[k] * scale))
    seed = chk.seed
    want = lambda p: only is None or p in only
    chk.rule = ("inputs are generated without regard to validity (random bytes/code points, token soup, grammar-shaped "
                "programs with pooled identifiers, line/token/character mutations and token-boundary truncations of every "
                "corpus .emb, import sets with missing/duplicate/cyclic files, nesting/length at the stated bounds) plus "
                "TLC-enumerated pass-outcome scenarios; a case is non-trivial when it reaches a distinct (last stage reached, "
                "outcome) class of the pipeline")
    chk.assumptions += [
        "inputs are bounded as in the property: <= ~300 lines, nesting <= 40",
        "'line' is what str.splitlines() yields (the documentation does not define it; lexer and renderer use it)",
        "a message about a file that could not be read may only carry position 1:1",
        "scenario replay drives the real glue.process_ir over stub passes (control flow only)",
        "a compilation must finish within 45 s (quick) / 120 s (thorough) of wall time and within a 3 GiB address space "
        "(typical: 0.03-1 s, 0.6 GiB); exceeding either is reported as Total.no-termination / exception:MemoryError",
    ]
    with Scratch("c16") as sc:
        # ---------------- design-level model checking ----------------
        if want("mc"):
            res = pipe_tlc.run_mc(chk, sc, choice_set="wide", max_compiles=cfg["mc_compiles"], part="mc-design",
                                  coverage=True)
            pipe_tlc.run_variants(chk, sc, ["continue", "dropdeferred", "synthonly"])
        # ---------------- G: scenarios ----------------
        jobs = []
        nscen = 0
        if want("scen"):
            scens = pipe_tlc.run_scen_gen(chk, sc, cfg["maxg"])
            nscen = len(scens)
            for i in range(0, len(scens), 60):
                jobs.append({"op": "scen", "items": [{"tid": "scen:%d" % (i + k), "scen": s}
                                                      for k, s in enumerate(scens[i:i + 60])]})
            chk.extra["scenarios_replayed"] = nscen
        corpus = None
        sent_texts = {}
        if want("fuzz"):
            fj, corpus = plan_jobs(cfg, seed)
            jobs += fj
            # sentences of the real grammar, derived by TLC (the grammar builder's SentenceGen), rendered
            # with pooled identifiers
            try:
                from . import grammar_gen
            except Exception:
                grammar_gen = None
            if grammar_gen is not None and cfg["sent"]:
                try:
                    cases = grammar_gen.generate(seed, cfg["sent"], 60, scratch=sc, mutants=1, procs=pipe_tlc.max_par(4),
                                                 add_tlc=lambda r: chk.add_tlc(r, part="sentence-generator"))
                except Exception as e:  # the generator belongs to another check: its trouble is not ours
                    cases = []
                    chk.extra["sentence_generator_unavailable"] = repr(e)[:200]
                items = []
                for i, c in enumerate(cases):
                    r = pipe_inputs.rng_for(seed, "sent", i)
                    tid = "sent:%d:%s" % (i, c["kind"])
                    sent_texts[tid] = pipe_inputs.render_sentence(r, c["w"])
                    items.append({"tid": tid, "text": sent_texts[tid]})
                for i in range(0, len(items), 50):
                    jobs.append({"op": "c16", "fam": "texts", "seed": seed, "items": items[i:i + 50]})
        streams = []
        cli_events = []
        t0 = time.time()
        if jobs:
            pool = pipe_worker.Pool(sc.sub("streams"), pipe_tlc.max_par(min(cfg["workers"], max(2, NCPU - 2))), job_timeout=600,
                                    compile_timeout=45 if chk.tier == "quick" else 120)
            cli_thread_result = {}

            def do_cli():
                if not want("cli"):
                    return
                c = corpus or pipe_inputs.load_corpus()
                cases = cli_cases(cfg, seed, c)
                res = run_parallel([(lambda t=t, f=f, m=m: run_cli_case(sc, t, f, m)) for t, f, m in cases], nproc=pipe_tlc.max_par(3))
                cli_thread_result["cases"] = cases
                cli_thread_result["res"] = res

            import threading
            th = threading.Thread(target=do_cli)
            th.start()
            streams = pool.run(interleave(jobs))
            th.join()
            if "res" in cli_thread_result:
                cli_events = [r[0] for r in cli_thread_result["res"]]
                cli_stream = sc.file("cli.ndjson")
                with open(cli_stream, "w") as f:
                    for e in cli_events:
                        f.write(json.dumps(e) + "\n")
                streams.append(cli_stream)
            chk.extra["worker_timeouts"] = len(pool.timeouts)
            chk.extra["worker_crashes"] = len(pool.crashes)
        chk.extra["record_wall_s"] = round(time.time() - t0, 1)
        if not streams:
            return
        # ---------------- statistics for the evidence (descriptive only) ----------------
        ncomp = 0
        fams = {}
        outcome_classes = {}
        for s in streams:
            tid, last = None, "start"
            for e in pipe_worker.read_stream(s):
                ev = e["ev"]
                if ev == "Compile":
                    tid, last = e["tid"], "compile"
                    ncomp += 1
                    fams[tid.split(":")[0]] = fams.get(tid.split(":")[0], 0) + 1
                elif ev in ("Tok", "Par", "Bld", "Back"):
                    last = ev
                elif ev == "Pass":
                    last = "Pass%d%s" % (e["k"], "+err" if e["groups"] else "")
                elif ev in ("Report", "Exception", "Timeout"):
                    cls = "%s/%s" % (last, e.get("kind", ev))
                    outcome_classes[cls] = outcome_classes.get(cls, 0) + 1
                    if len(chk.samples) < 5 and ev == "Report" and e["kind"] == "errors" and last.startswith("Pass"):
                        chk.sample({"tid": tid, "last_stage": last, "errors": e["errors"][:2]})
                elif ev == "Cli":
                    ncomp += 1
                    fams["cli"] = fams.get("cli", 0) + 1
                    outcome_classes["cli/exit%s" % e["exit"]] = outcome_classes.get("cli/exit%s" % e["exit"], 0) + 1
        for c in outcome_classes:
            chk.note_nontrivial(c)
        chk.extra["compilations_by_family"] = fams
        chk.extra["outcome_classes"] = dict(sorted(outcome_classes.items()))
        chk.traces = ncomp
        # ---------------- V: TLC judges ----------------
        shards, nev = pipe_tlc.shard_streams(sc, streams, 5, "c16")
        chk.evaluations = nev
        verdicts, summaries = pipe_tlc.validate_streams(chk, sc, shards, part="trace-validation")
        chk.extra["events_validated"] = sum(s["events"] for s in summaries)
        chk.extra["events_blamed"] = sum(s["blamed"] for s in summaries)
        chk.extra["events_skipped_after_blame"] = sum(s["skipped"] for s in summaries)

        cli_inputs = {}
        if cli_events:
            for (t, f, m), (ev, stderr) in zip(cli_thread_result["cases"], cli_thread_result["res"]):
                cli_inputs[t] = {"main": m, "files": {k: v.decode("latin-1") for k, v in f.items() if k == m},
                                 "encoding": "latin-1 view of the raw bytes", "stderr_tail": stderr[-1500:]}

        def payload_for(v):
            tid = v.get("tid") or ""
            if tid in cli_inputs:
                return cli_inputs[tid]
            if tid.startswith("scen:"):
                return {"scenario": tid}
            if tid in sent_texts:
                return {"tid": tid, "main": "m.emb", "text": sent_texts[tid], "other_files": []}
            try:
                inp = pipe_worker.regenerate_input(tid, seed)
            except Exception as e:  # noqa
                return {"tid": tid, "note": "input could not be regenerated: %r" % (e,)}
            if inp is None:
                return {"tid": tid}
            main = inp["main"]
            return {"tid": tid, "main": main, "text": inp["files"][main],
                    "other_files": sorted(k for k in inp["files"] if k != main)[:50]}

        report_verdicts(chk, verdicts, seed, payload_for)
        if want("fuzz"):
            pipe_tlc.corruption_selftest(chk, sc, [s for s in streams if not s.endswith("cli.ndjson")])


def replay(chk, path):
    with open(path) as f:
        rp = json.load(f)
    case = rp.get("case") or {}
    if "text" not in case:
        raise MachineryError("replay file carries no input text")
    corpus = pipe_inputs.load_corpus()
    files = dict(corpus)
    files[case["main"]] = case["text"]
    with Scratch("c16r") as sc:
        pool = pipe_worker.Pool(sc.sub("streams"), 1)
        streams = pool.run([{"op": "files", "files": files, "main": case["main"], "tid": case.get("tid", "replay")}])
        shards, nev = pipe_tlc.shard_streams(sc, streams, 1, "c16r")
        verdicts, _ = pipe_tlc.validate_streams(chk, sc, shards, part="replay")
        chk.traces = 1
        report_verdicts(chk, verdicts, chk.seed, lambda v: case)
