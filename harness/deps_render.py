"""C15: abstract dependency cases (printed by spec/deps/DepsGen.tla) -> .emb text.

Only concrete syntax lives here.  Every mention list of a case is rendered so that exactly the
mentioned names occur in that part of the definition; every rendering is type-correct Emboss so
that acyclic cases are accepted by the *whole* front end, not only by the passes C15 is about.

render_* return (text_lines, marks) where marks[k] = node id defined on text_lines[k] (0 = none).
"""

HEADER = [
    '[$default byte_order: "LittleEndian"]',
    "struct Inner:",
    "  0 [+1]  UInt  q",
    "struct PInner(p: UInt:8):",
    "  0 [+1]  UInt  q",
]

SYNTH = ["$size_in_bytes", "$max_size_in_bytes", "$min_size_in_bytes"]
INT_KINDS = ("param", "phys", "virt")
COMP_KINDS = ("comp", "parg")


def _kind(case, j):
    return case["nodes"][j - 1]["kind"]


def fname(case, j):
    n = case["n"]
    return SYNTH[j - n - 1] if j > n else "f%d" % j


def m_int(case, j):
    if j > case["n"]:
        return fname(case, j)
    k = _kind(case, j)
    if k in INT_KINDS:
        return "f%d" % j
    if k in COMP_KINDS:
        return "f%d.q" % j
    return "($present(f%d) ? 1 : 0)" % j


def m_bool(case, j):
    if j > case["n"]:
        return "%s == 0" % fname(case, j)
    k = _kind(case, j)
    if k in INT_KINDS:
        return "f%d == 0" % j
    if k in COMP_KINDS:
        return "f%d.q == 0" % j
    return "$present(f%d)" % j


def _sum(case, ids, empty):
    return "+".join(m_int(case, j) for j in ids) if ids else empty


def render_struct(case, tname):
    nodes = case["nodes"]
    params = [i + 1 for i, nd in enumerate(nodes) if nd["kind"] == "param"]
    head = "struct %s" % tname
    if params:
        head += "(" + ", ".join("f%d: UInt:8" % p for p in params) + ")"
    lines, marks = [head + ":"], [0]
    nfields = 0
    for i, nd in enumerate(nodes, 1):
        k = nd["kind"]
        if k == "param":
            continue
        nfields += 1
        if k == "virt":
            ids = nd["value"]
            if not ids:
                expr = str(i)
            elif len(ids) == 1 and nd["alias"] and (ids[0] > case["n"] or _kind(case, ids[0]) in INT_KINDS + COMP_KINDS):
                expr = m_int(case, ids[0])            # `let x = y` / `let x = y.q`: an alias
            else:
                expr = _sum(case, ids, "0") + "+1"
            lines.append("  let f%d = %s" % (i, expr))
            marks.append(i)
            continue
        start = _sum(case, nd["start"], "")
        if nd["next"]:
            start = "$next" + ("+" + start if start else "")
        elif not start:
            start = str(i % 4)
        if k == "phys":
            loc, typ = "%s [+1]" % start, "UInt"
        elif k == "comp":
            loc, typ = "%s [+1]" % start, "Inner"
        elif k == "parg":
            loc, typ = "%s [+1]" % start, "PInner(%s)" % _sum(case, nd["args"], "7")
        elif k == "arr":
            loc, typ = "%s [+%s]" % (start, _sum(case, nd["size"], "2")), "UInt:8[]"
        elif k == "arrn":
            sz = _sum(case, nd["size"], "3")
            # an array field can only be mentioned through $present(), which the type checker does
            # not take for an integer inside an array length: fall back to the automatic length
            auto = any(j <= case["n"] and _kind(case, j) in ("arr", "arrn") for j in nd["size"])
            loc, typ = "%s [+%s]" % (start, sz), "UInt:8[%s]" % ("" if auto else sz)
        else:
            raise ValueError(k)
        ind = "  "
        if nd["cond"]:
            lines.append("  if %s:" % " && ".join(m_bool(case, j) for j in nd["cond"]))
            marks.append(0)
            ind = "    "
        lines.append("%s%s  %s  f%d" % (ind, loc, typ, i))
        marks.append(i)
    if nfields == 0:
        # a structure needs a body
        lines.append("  0 [+1]  UInt  zz")
        marks.append(0)
    return lines, marks


def render_static(case, tag):
    """Enum values ("ev") and constant virtual fields ("sv") referring to each other statically."""
    nodes = case["nodes"]

    def cont(j):
        nd = nodes[j - 1]
        return ("En%s%d" if nd["kind"] == "ev" else "St%s%d") % (tag, nd["grp"])

    def nm(j):
        return ("VV%d" if nodes[j - 1]["kind"] == "ev" else "f%d") % j

    def mention(i, j):
        same = cont(i) == cont(j)
        if nodes[j - 1]["kind"] == "ev":
            q = nm(j) if same and (i + j) % 2 == 0 else "%s.%s" % (cont(j), nm(j))
            return "(%s == %s ? 1 : 0)" % (q, q)
        return nm(j) if same else "%s.%s" % (cont(j), nm(j))

    lines, marks = [], []
    conts = []
    for j in range(1, len(nodes) + 1):
        if cont(j) not in conts:
            conts.append(cont(j))
    for c in conts:
        is_enum = c.startswith("En")
        lines.append(("enum %s:" if is_enum else "struct %s:") % c)
        marks.append(0)
        for i, nd in enumerate(nodes, 1):
            if cont(i) != c:
                continue
            expr = "+".join(mention(i, j) for j in nd["value"])
            expr = (expr + "+1") if expr else str(i)
            lines.append(("  %s = %s" if is_enum else "  let %s = %s") % (nm(i), expr))
            marks.append(i)
    return lines, marks


def render_mods(case, tag):
    """-> (files {name: text}, main, {file name: node id})."""
    files, ids = {}, {}
    for i, nd in enumerate(case["nodes"], 1):
        name = "%s_m%d.emb" % (tag, i)
        ls = ['import "%s_m%d.emb" as im%d' % (tag, j, j) for j in nd["value"]]
        ls += ["struct Tt%d:" % i, "  0 [+1]  UInt  xx"]
        files[name] = "\n".join(ls) + "\n"
        ids[name] = i
    return files, "%s_m1.emb" % tag, ids
