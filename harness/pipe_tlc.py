"""TLC runs shared by C16/C17/C18: design-level model checking of spec/pipe/PipelineMC.tla (with the
bug variants that must be caught), generators, and trace validation with spec/pipe/PipelineTrace.tla."""
import json
import os
import shutil

from .common import SPEC, MachineryError, run_tlc, write_cfg, run_parallel, tla_str

PIPE = os.path.join(SPEC, "pipe")


def max_par(n):
    """Cap on concurrent processes / TLC workers (VERIF_MAX_PAR; default: what the caller asks for)."""
    cap = int(os.environ.get("VERIF_MAX_PAR", "0") or 0)
    return max(1, min(n, cap)) if cap else n
NPASS = 12
PRELUDE = "<prelude>"

MC_INVARIANTS = ("Conforms", "Pure", "SplitEqualsInProc", "AnonDistinct", "CacheCounter", "NoStuck", "TypeOK")

# variant -> (choice set that exposes it, compiles needed, invariant expected to be violated)
VARIANTS = {
    "keyfile": ("deep", 3, "Conforms"),
    "nocopy": ("deep", 3, "Pure"),
    "setorder": ("deep", 3, "Pure"),
    "continue": ("wide", 1, "Conforms"),
    "dropdeferred": ("wide", 1, "Conforms"),
    "synthonly": ("wide", 1, "Conforms"),
    "percompile": ("deep", 2, "Conforms"),
}


def _spec_copy(sc, name):
    """TLC writes its metadir next to the spec: work on a copy under the scratch dir."""
    d = sc.sub("spec-" + name)
    for f in os.listdir(PIPE):
        if f.endswith(".tla"):
            shutil.copy(os.path.join(PIPE, f), d)
    return d


def mc_constants(variant, choice_set, max_compiles, gen=False, procs=("p1", "p2"), seeds=("0", "1")):
    return {
        "NPass": NPASS, "Prelude": tla_str(PRELUDE), "Variant": tla_str(variant), "MaxCompiles": max_compiles,
        "Gen": "TRUE" if gen else "FALSE", "ChoiceSet": tla_str(choice_set),
        "Procs": "{" + ", ".join(tla_str(p) for p in procs) + "}",
        "Seeds": "{" + ", ".join(tla_str(s) for s in seeds) + "}",
    }


def run_mc(chk, sc, *, choice_set, max_compiles, part, coverage=False, workers=None, timeout=2400):
    d = _spec_copy(sc, part)
    cfg = os.path.join(d, "mc.cfg")
    write_cfg(cfg, constants=mc_constants("doc", choice_set, max_compiles), invariants=MC_INVARIANTS, view="MCView")
    from .common import NCPU
    res = run_tlc(os.path.join(d, "PipelineMC.tla"), cfg, workers=max_par(workers or NCPU), coverage=coverage, timeout=timeout, heap="6g")
    chk.add_tlc(res, part=part)
    if not res.clean or not res.completed:
        chk.violation("design:%s" % ",".join(res.invariant_violated or ["tlc"]),
                      "design-level model checking of the documented pipeline failed (%s, <=%d compiles):\n%s"
                      % (choice_set, max_compiles, res.error_trace_tail(60)), {"part": part})
    return res


def run_variants(chk, sc, names, *, only_invariant=None):
    """Each named defect of the abstract implementation must be caught by the named invariant."""
    def one(v):
        cs, mc, inv = VARIANTS[v]
        d = _spec_copy(sc, "variant-" + v)
        cfg = os.path.join(d, "mc.cfg")
        write_cfg(cfg, constants=mc_constants(v, cs, mc), invariants=MC_INVARIANTS, view="MCView")
        res = run_tlc(os.path.join(d, "PipelineMC.tla"), cfg, workers=max_par(4), timeout=900, heap="3g")
        return v, inv, res

    results = run_parallel([(lambda v=v: one(v)) for v in names], nproc=max_par(4) // 2 or 1)
    caught = {}
    for v, inv, res in results:
        chk.add_tlc(res, part="mc-variant-" + v)
        caught[v] = res.invariant_violated[:1]
        if inv not in res.invariant_violated:
            raise MachineryError("monitor is vacuous: bug variant %r of the abstract implementation was not caught by %s "
                                 "(TLC said: %s)" % (v, inv, res.invariant_violated or res.out[-400:]))
    chk.extra.setdefault("bug_variants_caught_by_design_MC", {}).update({k: v[0] for k, v in caught.items()})
    return caught


def run_gen(chk, sc, *, choice_set, max_compiles, procs, seeds, part, constraints=()):
    d = _spec_copy(sc, part)
    cfg = os.path.join(d, "gen.cfg")
    write_cfg(cfg, constants=mc_constants("doc", choice_set, max_compiles, gen=True, procs=procs, seeds=seeds),
              invariants=("GenPrint",), constraints=constraints)
    res = run_tlc(os.path.join(d, "PipelineMC.tla"), cfg, workers=1, timeout=1800, heap="4g")
    chk.add_tlc(res, part=part)
    if not res.clean:
        raise MachineryError("schedule generator failed:\n" + res.error_trace_tail(40))
    seen, out = set(), []
    for c in res.printed_json():
        k = json.dumps(c, sort_keys=True)
        if k not in seen:
            seen.add(k)
            out.append(c)
    return out


def run_scen_gen(chk, sc, max_groups):
    d = _spec_copy(sc, "scen")
    cfg = os.path.join(d, "scen.cfg")
    write_cfg(cfg, constants={"NPass": NPASS, "MaxG": max_groups})
    res = run_tlc(os.path.join(d, "PipelineScen.tla"), cfg, workers=1, timeout=600)
    chk.add_tlc(res, part="scenario-generator")
    seen, out = set(), []
    for c in res.printed_json():
        k = json.dumps(c, sort_keys=True)
        if k not in seen:
            seen.add(k)
            out.append(c["scen"])
    return out


def validate_streams(chk, sc, shard_files, part, timeout=1800):
    """One single-worker TLC per shard file (ndjson of events).  Returns (verdicts, summaries)."""
    def one(i, path):
        d = _spec_copy(sc, "%s-%d" % (part, i))
        cfg = os.path.join(d, "trace.cfg")
        write_cfg(cfg, constants={"NPass": NPASS, "Prelude": tla_str(PRELUDE)})
        return run_tlc(os.path.join(d, "PipelineTrace.tla"), cfg, workers=1, env={"TRACE_FILE": path}, timeout=timeout,
                       heap="3g")

    results = run_parallel([(lambda i=i, p=p: one(i, p)) for i, p in enumerate(shard_files)], nproc=max_par(min(8, len(shard_files) or 1)))
    verdicts, summaries = [], []
    for res in results:
        chk.add_tlc(res, part=part)
        if not res.clean or not res.completed:
            raise MachineryError("trace validation did not complete:\n" + res.error_trace_tail(40))
        got_summary = False
        for v in res.printed_json():
            if isinstance(v, dict) and v.get("summary"):
                summaries.append(v)
                got_summary = True
            elif isinstance(v, dict) and "clauses" in v:
                verdicts.append(v)
        if not got_summary:
            raise MachineryError("trace validation ended without a summary line:\n" + res.out[-1500:])
    return verdicts, summaries


def shard_streams(sc, streams, nshards, name):
    """Concatenate whole streams (each starts with Start) into at most nshards files."""
    nshards = max(1, min(nshards, len(streams)))
    sizes = [0] * nshards
    paths = [sc.file("%s-shard%d.ndjson" % (name, i)) for i in range(nshards)]
    outs = [open(p, "w", encoding="utf-8") for p in paths]
    nev = 0
    for s in sorted(streams, key=lambda p: -os.path.getsize(p)):
        i = sizes.index(min(sizes))
        with open(s, encoding="utf-8") as f:
            for line in f:
                if line.strip():
                    outs[i].write(line if line.endswith("\n") else line + "\n")
                    nev += 1
        sizes[i] += os.path.getsize(s)
    for o in outs:
        o.close()
    return [p for p, z in zip(paths, sizes) if z > 0], nev


def key_of(clause, site, input_key=""):
    """Stable violation key: what fails (clause) and where (call site / stage / entry point)."""
    if clause.startswith("Pure."):
        return "%s@%s" % (clause, input_key)
    if clause == "Total.exception":
        return "exception:%s" % site
    if clause.startswith("Render."):
        return "%s:%s" % (clause.lower().replace(".", "-"), site)
    if "|" in clause:      # WF clauses carry the diagnostic's first words: "WF.x|Potential range of"
        clause, what = clause.split("|", 1)
        return "%s@%s:%s" % (clause, site, what)
    return "%s@%s" % (clause, site)


# ------------------------------------------------------------------------------------------------
# the binding bites: corrupted copies of a good recorded compilation must be blamed
# ------------------------------------------------------------------------------------------------

def _find_compilation(events, want):
    """(prefix, compilation): the first recorded compilation (events from Compile to Report) satisfying
    `want`, and everything its process did before it (so that cache and counter are what they were)."""
    cur = None
    start = 0
    for k, e in enumerate(events):
        if e["ev"] == "Compile":
            cur = [e]
            start = k
        elif cur is not None:
            cur.append(e)
            if e["ev"] in ("Report", "Exception", "Timeout"):
                if e["ev"] == "Report" and want(cur):
                    return events[:start], cur
                cur = None
    return None


def corruption_selftest(chk, sc, streams):
    """Take good recorded compilations, corrupt one recorded field / drop one event, and require the
    monitor to blame exactly that (BUILDING.md rule 10).  Raises MachineryError if a corruption passes."""
    import copy
    from . import pipe_worker
    events = []
    for s in streams:
        events = pipe_worker.read_stream(s)
        if events and events[0]["ev"] == "Start" and sum(1 for e in events if e["ev"] == "Pass") > 30:
            break
    ok_full = _find_compilation(events, lambda c: c[-1]["kind"] == "done" and sum(1 for e in c if e["ev"] == "Pass") == NPASS
                                and any(e["ev"] == "Tok" for e in c))
    ok_err = _find_compilation(events, lambda c: c[-1]["kind"] == "errors" and c[-1]["errors"] and c[-1]["plain"] == "ok"
                               and any(e["ev"] == "Pass" and e["groups"] for e in c))
    if ok_full is None or ok_err is None:
        chk.extra["corruption_selftest"] = "skipped: no suitable recorded compilation"
        return
    cases = []

    def variant(name, base, fn, expect):
        prefix, comp = base
        c = copy.deepcopy(comp)
        c = fn(c) or c
        c[0]["tid"] = "selftest:" + name
        cases.append((name, expect, prefix + c))

    def swap_passes(c):
        i = [k for k, e in enumerate(c) if e["ev"] == "Pass"]
        c[i[3]], c[i[4]] = c[i[4]], c[i[3]]

    def drop_pass(c):
        i = [k for k, e in enumerate(c) if e["ev"] == "Pass"]
        del c[i[6]]

    def report_errors_instead(c):
        c[-1]["kind"] = "errors"

    def drop_report_errors(c):
        c[-1]["kind"] = "done"
        c[-1]["errors"] = []

    def bad_position(c):
        c[-1]["errors"][0][0]["l1"] = 0

    def synthetic(c):
        c[-1]["errors"][0][0]["syn"] = True

    def unknown_file(c):
        c[-1]["errors"][0][0]["file"] = "n:never-heard-of.emb"

    def pass_after_error(c):
        i = max(k for k, e in enumerate(c) if e["ev"] == "Pass")
        c.insert(i + 1, {"ev": "Pass", "k": c[i]["k"] + 1, "name": "x", "groups": []})

    def wrong_counter(c):
        for e in c:
            if e["ev"] == "Bld":
                e["ids"] = [x + 1000 for x in e["ids"]] or [1000]
                return

    def render_failed(c):
        c[-1]["plain"] = "IndexError@selftest"

    variant("swap-two-passes", ok_full, swap_passes, "PassOrder.pass-out-of-order")
    variant("drop-a-pass", ok_full, drop_pass, "PassOrder.pass-out-of-order")
    variant("errors-from-nowhere", ok_full, report_errors_instead, "Total.errors-from-nowhere")
    variant("counter", ok_full, wrong_counter, "Counter.anonymous-numbering")
    variant("errors-dropped", ok_err, drop_report_errors, "EarlyExit.errors-dropped")
    variant("position-outside", ok_err, bad_position, "WF.position-inside-file")
    variant("synthetic-location", ok_err, synthetic, "WF.synthetic-location")
    variant("unknown-file", ok_err, unknown_file, "WF.file-known")
    variant("pass-after-error", ok_err, pass_after_error, "EarlyExit.pass-after-errors")
    variant("render-failed", ok_err, render_failed, "Render.plain")
    path = sc.file("selftest.ndjson")
    with open(path, "w") as f:
        for _n, _x, evs in cases:
            for e in evs:
                f.write(json.dumps(e) + "\n")
    verdicts, _ = validate_streams(chk, sc, [path], part="corruption-selftest")
    blamed = {}
    for v in verdicts:
        blamed.setdefault(v["tid"], set()).update(c.split("|")[0] for c, _s in v["clauses"])
    missed = [n for n, x, _e in cases if x not in blamed.get("selftest:" + n, set())]
    chk.extra["corruption_selftest"] = {"corruptions": len(cases), "rejected": len(cases) - len(missed)}
    if missed:
        raise MachineryError("trace validation is vacuous: corrupted recordings were accepted: %s (blamed: %s)"
                             % (missed, {k: sorted(v) for k, v in blamed.items()}))
