"""Render the REAL lr1.Parser objects, grammars and documents as JSON for the TLA+ grammar specs.

Nothing here decides anything: these functions read attributes of the real objects
(Parser.action / .goto / .default_errors / .productions / .conflicts) and write them down in the
shape spec/grammar/LRTables.tla documents.  Equality, bisimulation and language questions are
all answered by TLC.

Table JSON (see LRTables.tla):
  {"prods":  [[lhs, [rhs...]], ...],                       1-based production numbers in TLA+
   "states": [{"a": {symbol: {"k": kind, "v": value}},     state s is element s+1
               "g": {nonterminal: state},
               "d": [] | [default error code]}, ...]}
  kind "s": v = target state;  "r": v = production number (1-based, into "prods");
  kind "a": v = 0;             "e": v = [] (code None) | [code]
"""
import hashlib
import json
import os
import re
import sys

from .common import REPO

if REPO not in sys.path:
    sys.path.insert(0, REPO)
sys.dont_write_bytecode = True


def _lr1():
    from compiler.front_end import lr1
    return lr1


def prod_json(p):
    return [str(p.lhs), [str(x) for x in p.rhs]]


def export_parser(parser, renumber=None):
    """lr1.Parser -> table dict.  renumber: optional permutation {old state: new state} (0 -> 0);
    used only by the self-test that shows state numbering is irrelevant to the verdict."""
    lr1 = _lr1()
    prods = sorted(set(parser.productions), key=lambda p: (str(p.lhs), [str(x) for x in p.rhs]))
    pnum = {p: i + 1 for i, p in enumerate(prods)}
    states = set(parser.action.keys()) | set(parser.goto.keys()) | set(parser.default_errors.keys()) | {0}
    for row in list(parser.action.values()):
        for a in row.values():
            if isinstance(a, lr1.Shift):
                states.add(a.state)
    for row in list(parser.goto.values()):
        states.update(row.values())
    n = max(states) + 1
    ren = (lambda s: s) if renumber is None else (lambda s: renumber[s])
    out = [None] * n
    for s in range(n):
        arow = {}
        for sym, a in parser.action.get(s, {}).items():
            if isinstance(a, lr1.Shift):
                v = {"k": "s", "v": ren(a.state)}
            elif isinstance(a, lr1.Reduce):
                if a.rule not in pnum:
                    pnum[a.rule] = len(prods) + 1
                    prods.append(a.rule)
                v = {"k": "r", "v": pnum[a.rule]}
            elif isinstance(a, lr1.Accept):
                v = {"k": "a", "v": 0}
            elif isinstance(a, lr1.Error):
                v = {"k": "e", "v": [] if a.code is None else [str(a.code)]}
            else:
                raise TypeError(a)
            arow[str(sym)] = v
        grow = {str(sym): ren(t) for sym, t in parser.goto.get(s, {}).items()}
        d = []
        if s in parser.default_errors:
            c = parser.default_errors[s]
            d = [] if c is None else [str(c)]
        out[ren(s)] = {"a": arow, "g": grow, "d": d}
    return {"prods": [prod_json(p) for p in prods], "states": out}


def digest(tables):
    return hashlib.sha256(json.dumps(tables, sort_keys=True, separators=(",", ":")).encode()).hexdigest()


def export_conflicts(parser):
    """Conflicts as data: [{state, symbol, kinds:[...]}] (only emptiness and position are used)."""
    lr1 = _lr1()
    out = []
    for c in sorted(parser.conflicts, key=lambda c: (c.state, str(c.symbol))):
        out.append({"state": c.state, "symbol": str(c.symbol),
                    "kinds": sorted(type(a).__name__ for a in c.actions)})
    return out


# ---------------------------------------------------------------------------------------------
# doc/grammar.md, read as a document (independent of generate_grammar_md.py)
# ---------------------------------------------------------------------------------------------

def read_grammar_md(path=None):
    """Returns (productions [[lhs,[rhs]]] in document order, token rows [[pattern, symbol|""]]).

    Production blocks are the fenced ```shell blocks: `lhs -> sym sym` starts a left-hand side,
    a line whose first word is `|` starts another alternative of the same lhs, any other line
    continues the current right-hand side; `<empty>` is the empty right-hand side (as the
    document's own preamble explains).  The token table is the Markdown table whose header is
    `Pattern | Symbol`: cells are in back-quotes; `*no symbol emitted*` means no symbol.
    """
    path = path or os.path.join(REPO, "doc", "grammar.md")
    with open(path, encoding="utf-8") as f:
        lines = f.read().split("\n")
    prods = []
    rows = []
    in_block = False
    in_table = False
    cur = None
    for line in lines:
        if line.startswith("```"):
            in_block = not in_block
            cur = None
            continue
        if in_block:
            words = line.split()
            if not words:
                continue
            if len(words) >= 2 and words[1] == "->" and not line[0].isspace():
                cur = [words[0], []]
                prods.append(cur)
                rest = words[2:]
            elif words[0] == "|":
                cur = [cur[0], []]
                prods.append(cur)
                rest = words[1:]
            else:
                rest = words
            cur[1].extend(w for w in rest if w != "<empty>")
            continue
        if re.match(r"^Pattern\s+\|\s+Symbol\s*$", line):
            in_table = True
            continue
        if in_table:
            if re.match(r"^-+\s+\|\s+-+\s*$", line):
                continue
            m = re.match(r"^`(.*)`\s+\| (?:`(.*)`|\*no symbol emitted\*)\s*$", line)
            if not m:
                in_table = False
                continue
            rows.append([m.group(1), m.group(2) or ""])
    return prods, rows


def canon_pattern(p):
    """A Markdown table cell cannot contain a bare `|`, so the document writes `\\|` both for the
    regex alternation bar and for an escaped literal bar; both sides are compared after this
    identification (named deviation: `\\|` and `|` are not distinguished)."""
    return p.replace("\\|", "|")


def tokenizer_rows():
    """The tokenizer's own pattern table, literals first, in matching order, as [regex, symbol]."""
    from compiler.front_end import tokenizer
    rows = []
    for lit in tokenizer.LITERAL_TOKEN_PATTERNS:
        # the regex that matches exactly this literal: every non-word character escaped
        rows.append([re.sub(r"(\W)", r"\\\1", lit), '"' + lit + '"'])
    for t in tokenizer.REGEX_TOKEN_PATTERNS:
        rows.append([t.regex.pattern, t.symbol or ""])
    return rows
