"""Lexical/syntactic preprocessing of Emboss text-format output (doc/text-format.md) into a tree TLC can walk.
No judgement happens here: anything that does not parse is handed to TLC as a tree with a `bad` marker."""

PUNCT = ":{}[],"


def tokenize(s):
    toks = []
    i = 0
    n = len(s)
    while i < n:
        c = s[i]
        if c in " \t\r\n":
            i += 1
        elif c == "#":
            while i < n and s[i] not in "\r\n":
                i += 1
        elif c in PUNCT:
            toks.append(c)
            i += 1
        else:
            j = i
            while j < n and s[j] not in " \t\r\n#" and s[j] not in PUNCT:
                j += 1
            toks.append(s[i:j])
            i = j
    return toks


class ParseError(Exception):
    pass


def _value(toks, i):
    if i >= len(toks):
        raise ParseError("eof")
    t = toks[i]
    if t == "{":
        # struct: { name : value [,] ... }   array: { [idx]: value , value , ... }
        j = i + 1
        # decide: struct if next is a word followed by ':'; empty braces -> struct with no fields
        if j < len(toks) and toks[j] == "}":
            return {"k": "empty", "f": [], "e": []}, j + 1
        is_struct = j + 1 < len(toks) and toks[j] not in PUNCT and toks[j + 1] == ":"
        if is_struct:
            fields = []
            while j < len(toks) and toks[j] != "}":
                if toks[j] == ",":
                    j += 1
                    continue
                name = toks[j]
                if name in PUNCT or j + 1 >= len(toks) or toks[j + 1] != ":":
                    raise ParseError("field syntax at %d" % j)
                v, j = _value(toks, j + 2)
                fields.append({"n": name, "v": v})
            if j >= len(toks):
                raise ParseError("unclosed {")
            return {"k": "st", "f": fields}, j + 1
        elems = []
        while j < len(toks) and toks[j] != "}":
            if toks[j] == ",":
                j += 1
                continue
            idx = []
            if toks[j] == "[":
                if j + 3 >= len(toks) or toks[j + 2] != "]" or toks[j + 3] != ":":
                    raise ParseError("index syntax")
                idx = [ord(c) for c in toks[j + 1]]
                j += 4
            v, j = _value(toks, j)
            elems.append({"i": idx, "v": v})
        if j >= len(toks):
            raise ParseError("unclosed {")
        return {"k": "arr", "e": elems}, j + 1
    if t in PUNCT:
        raise ParseError("unexpected " + t)
    if t[0].isdigit() or t[0] == "-":
        return {"k": "num", "c": [ord(c) for c in t]}, i + 1
    return {"k": "id", "s": t}, i + 1


def parse(text):
    """text -> (tree (list of {n, v}) or None, error)."""
    toks = tokenize(text)
    try:
        v, j = _value(toks, 0)
        if j != len(toks) or v["k"] not in ("st", "empty"):
            return None, "trailing tokens or not a struct"
        return v["f"], None
    except ParseError as e:
        return None, str(e)
