"""Build and run C++ drivers against generated headers and /repo/runtime/cpp."""
import os
import subprocess

from .common import REPO, MachineryError

GXX = "g++"
CLANGXX = "clang++-14"


def build(src, out, *, includes=(), std="c++14", san=False, opt="-O0", defines=(), timeout=900, compiler=None, extra=()):
    cmd = [compiler or (CLANGXX if san else GXX), "-std=" + std, opt, "-w", "-I", REPO]
    for i in includes:
        cmd += ["-I", i]
    for d in defines:
        cmd.append("-D" + d)
    if san:
        cmd += ["-fsanitize=address,undefined", "-fno-sanitize-recover=all", "-fno-omit-frame-pointer", "-g1"]
    cmd += list(extra)
    cmd += [src, "-o", out]
    p = subprocess.run(cmd, stdout=subprocess.PIPE, stderr=subprocess.STDOUT, text=True, timeout=timeout)
    return p.returncode, p.stdout


def syntax_only(src, *, includes=(), std="c++14", defines=(), timeout=600, extra=()):
    cmd = [GXX, "-std=" + std, "-fsyntax-only", "-w", "-I", REPO]
    for i in includes:
        cmd += ["-I", i]
    for d in defines:
        cmd.append("-D" + d)
    cmd += list(extra)
    cmd.append(src)
    p = subprocess.run(cmd, stdout=subprocess.PIPE, stderr=subprocess.STDOUT, text=True, timeout=timeout)
    return p.returncode, p.stdout


def run(exe, stdin_text="", timeout=600, env=None):
    e = dict(os.environ)
    e["ASAN_OPTIONS"] = "detect_leaks=0:abort_on_error=0:exitcode=66"
    e["UBSAN_OPTIONS"] = "print_stacktrace=1:halt_on_error=1:exitcode=67"
    if env:
        e.update(env)
    p = subprocess.run([exe], input=stdin_text, stdout=subprocess.PIPE, stderr=subprocess.PIPE, text=True, timeout=timeout, env=e, errors="replace")
    return p.returncode, p.stdout, p.stderr
