"""Small helpers shared by c08.py / c09.py: run a spec/grammar module, read TLC's error trace."""
import os
import re

from .common import SPEC, run_tlc, write_cfg

AREA = "grammar"


def spec_path(name):
    return os.path.join(SPEC, AREA, name + ".tla")


def tlc(sc, module, tag, *, invariants=(), env=None, workers=1, constants=None, init="Init", next_="Next",
        simulate=None, depth=None, seed=0, coverage=False, timeout=1800, extra=(), heap="4g",
        constraints=(), postcondition=None, view=None):
    """Run spec/grammar/<module>.tla with a cfg written into the scratch dir."""
    cfg = sc.file("%s-%s.cfg" % (module, tag))
    write_cfg(cfg, init=init, next_=next_, invariants=invariants, constants=constants,
              constraints=constraints, postcondition=postcondition, view=view)
    return run_tlc(spec_path(module), cfg, lib_areas=(AREA,), workers=workers, env=env, simulate=simulate,
                   depth=depth, seed=seed, coverage=coverage, timeout=timeout, extra=extra, heap=heap,
                   metadir=sc.sub("meta-%s-%s" % (module, tag)))


def trace_states(out):
    """TLC error trace -> list of {var: text}.  Only used to describe a violation."""
    states = []
    cur = None
    for line in out.splitlines():
        if re.match(r"^State \d+: ", line):
            cur = {}
            states.append(cur)
            continue
        m = re.match(r"^/\\ (\w+) = (.*)$", line)
        if cur is not None and m:
            cur[m.group(1)] = m.group(2)
        elif cur is not None and not line.strip():
            cur = None
    return states


def untla_str(s):
    s = s.strip()
    if len(s) >= 2 and s[0] == '"' and s[-1] == '"':
        return s[1:-1].replace('\\"', '"').replace("\\\\", "\\")
    return s
