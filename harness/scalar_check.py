"""Run spec/scalar/ScalarCheck.tla over ndjson record files and turn TLC's output into verdicts."""
import os

from .common import SPEC, MachineryError, run_parallel, run_tlc, NCPU
from .scalar_rt import max_procs

SCALAR_DIR = os.path.join(SPEC, "scalar")


def check_files(files, scratch_dir, timeout=3000, heap="3g"):
    """One single-worker TLC per file (in parallel).  Returns (results, mismatches, summaries)."""
    cfg = os.path.join(SCALAR_DIR, "ScalarCheck.cfg")
    mod = os.path.join(SCALAR_DIR, "ScalarCheck.tla")

    def job(i, path):
        return run_tlc(mod, cfg, workers=1, env={"CASES_FILE": path}, timeout=timeout, heap=heap,
                       metadir=os.path.join(scratch_dir, "meta-sc-%d-%d" % (os.getpid(), i)))

    results = run_parallel([lambda i=i, p=p: job(i, p) for i, p in enumerate(files)], nproc=min(max_procs(), 16))
    mismatches, summaries = [], []
    for path, res in zip(files, results):
        if not res.clean:
            raise MachineryError("ScalarCheck did not run to completion on %s:\n%s" % (path, res.error_trace_tail(60)))
        got_summary = False
        for obj in res.printed_json():
            if isinstance(obj, dict) and obj.get("summary"):
                summaries.append(obj)
                got_summary = True
            elif isinstance(obj, dict) and "clause" in obj:
                mismatches.append(obj)
        if not got_summary:
            raise MachineryError("ScalarCheck printed no summary for %s:\n%s" % (path, res.out[-3000:]))
    return results, mismatches, summaries


def report(chk, mismatches, prop_clauses=None):
    """Turn mismatching clauses into violations with stable keys (level:clause).

    prop_clauses: optional predicate selecting the clauses that belong to the calling property."""
    n = 0
    for m in mismatches:
        clause = m["clause"]
        if prop_clauses is not None and not prop_clauses(clause):
            continue
        n += 1
        key = "%s:%s" % (m.get("lvl", "?"), clause)
        cfg = m.get("cfg", {})
        desc = ("scalar field %s:%s in a %s-bit %s container at bit offset %s%s, container bytes %s: %s -- "
                "specification says %s, implementation gave %s" % (
                    cfg.get("t"), cfg.get("w"), cfg.get("c"), cfg.get("ord"), cfg.get("o"),
                    (" (enum underlying width %s)" % cfg.get("u")) if cfg.get("u") else "",
                    m.get("m"), clause, m.get("expected"), m.get("got")))
        chk.violation(key, desc, m)
    return n
