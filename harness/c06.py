"""C06 — text format output reads back to the same structure."""
from . import text_codec
from .common import Scratch

LEVEL = "model_checking"


def run(chk, only=None):
    with Scratch("c06") as sc:
        if not only or "codec" in only:
            text_codec.run(chk, sc)
    if not only or "struct" in only:
        run_struct(chk)
    chk.rule = ("(a) every C++ integer type x base {2,10,16} x grouping x {limits, powers of 2 and 10 and neighbours, seeded values}: the real encoder's output and the "
                "real decoder's result are validated by TLC against Text.tla; malformed catalogue per type; every case is distinct by construction")


def run_struct(chk):
    from . import view_beh
    quick = chk.tier == "quick"
    view_beh.run_behaviours(chk, "single", ["tx", "wr"], nbeh=20 if quick else 300, depth=6 if quick else 10)
