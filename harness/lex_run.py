"""Run the REAL tokenizer and record what it did; run LexCheck.tla over recorded cases.

Python here only renders inputs, calls compiler.front_end.tokenizer.tokenize from the repo's
working tree, writes down the result, starts TLC and parses TLC's printed verdicts.
"""
import json
import os
import re as _pyre
import sys

from .common import (REPO, SPEC, MachineryError, chunks, run_parallel, run_tlc, write_cfg)
from . import lex_table

LEX_DIR = os.path.join(SPEC, "lex")
# upper bound on concurrently running TLC processes (shards); lower it on a shared machine
MAXPROC = int(os.environ.get("VERIF_MAXPROC", "14") or 14)


def _tokenizer():
    if REPO not in sys.path:
        sys.path.insert(0, REPO)
    sys.dont_write_bytecode = True
    from compiler.front_end import tokenizer
    return tokenizer


def cps(s):
    return [ord(c) for c in s]


def tok_record(t):
    loc = t.source_location
    return {"sym": t.symbol, "text": cps(t.text), "l1": loc.start.line, "c1": loc.start.column,
            "l2": loc.end.line, "c2": loc.end.column}


NO_ERR = {"kind": "none", "line": 0, "c1": 0, "c2": 0}


def record(text, cid, fam, plens=None):
    """One case: the text (code points) and what tokenizer.tokenize returned for it."""
    tk = _tokenizer()
    case = {"id": cid, "fam": fam, "text": cps(text), "ok": False, "toks": [], "err": dict(NO_ERR),
            "plens": plens or []}
    try:
        tokens, errors = tk.tokenize(text, "f.emb")
    except Exception as e:  # recorded as an event; TLC rejects it (spec never predicts line 0)
        case["err"] = {"kind": "exception:" + type(e).__name__, "line": 0, "c1": 0, "c2": 0}
        return case
    if errors:
        m = errors[0][0]
        loc = m.location
        msg = m.message.lower()
        kind = "unrecognized" if "unrecognized" in msg else ("indent" if "indent" in msg else "other")
        case["err"] = {"kind": kind, "line": loc.start.line, "c1": loc.start.column, "c2": loc.end.column}
    else:
        case["ok"] = True
        case["toks"] = [tok_record(t) for t in tokens]
    return case


def doc_pattern_lens(table, compiled, line):
    """Length Python's re matches for each DOCUMENTED pattern at column 1 (-1: no match)."""
    out = []
    for rx in compiled:
        m = rx.match(line)
        out.append(len(m.group(0)) if m else -1)
    return out


def compile_doc_patterns(table):
    return [_pyre.compile(p["src"]) for p in table["patterns"]]


def table_for_tlc(table):
    """Add the code points of keyword/operator rows (`text`) for Lex!IsKeywordText."""
    pats = []
    for p in table["patterns"]:
        q = dict(p)
        q["text"] = cps(p["sym"][1:-1]) if p["lit"] else []
        q.pop("src", None)
        pats.append(q)
    return {"patterns": pats}


def write_table(path, repo=None):
    table = lex_table.load_table(repo)
    with open(path, "w") as f:
        json.dump(table_for_tlc(table), f, separators=(",", ":"))
    return table


def write_cases(path, cases):
    with open(path, "w") as f:
        for c in cases:
            f.write(json.dumps(c, separators=(",", ":")))
            f.write("\n")


def _check_cfg(scratch_dir):
    cfg = os.path.join(scratch_dir, "LexCheck.cfg")
    if not os.path.exists(cfg):
        write_cfg(cfg, spec="Spec")
    return cfg


def run_lexcheck(chk, scr, table_path, cases, part, nshards=None, timeout=1500, env_extra=None):
    """Shard `cases` over single-worker TLC processes.  Returns list of failure dicts printed by TLC."""
    if not cases:
        return []
    weight = sum(len(c["text"]) for c in cases) + 20 * len(cases)
    nshards = nshards or min(max(MAXPROC, 1) * 2 if MAXPROC < 8 else MAXPROC, max(1, weight // 12000))
    # interleave so that every shard gets the same mix of cheap and expensive cases
    shards = [cases[k::nshards] for k in range(nshards)]
    shards = [s for s in shards if s]
    cfg = os.path.join(scr.path, "LexCheck-%s.cfg" % part)
    write_cfg(cfg, spec="Spec")
    jobs = []
    for k, sh in enumerate(shards):
        cpath = scr.file("cases-%s-%d.ndjson" % (part, k))
        write_cases(cpath, sh)

        def job(cpath=cpath, k=k):
            env = dict(env_extra or {})
            env.update({"LEX_TABLE": table_path, "CASES_FILE": cpath})
            return run_tlc(os.path.join(LEX_DIR, "LexCheck.tla"), cfg, lib_areas=("lex",), workers=1,
                           env=env, timeout=timeout,
                           metadir=os.path.join(scr.path, "meta-%s-%d" % (part, k)))
        jobs.append(job)
    results = run_parallel(jobs, nproc=min(len(jobs), MAXPROC))
    fails = []
    consumed = 0
    for res, sh in zip(results, shards):
        chk.add_tlc(res, part=part)
        if not res.clean:
            raise MachineryError("LexCheck did not complete cleanly:\n" + res.error_trace_tail(40))
        got_summary = False
        for obj in res.printed_json():
            if isinstance(obj, dict) and obj.get("summary"):
                got_summary = True
                consumed += obj["cases"]
                if obj["cases"] != len(sh):
                    raise MachineryError("LexCheck consumed %d of %d cases" % (obj["cases"], len(sh)))
            elif isinstance(obj, dict) and "clauses" in obj:
                fails.append(obj)
        if not got_summary:
            raise MachineryError("LexCheck printed no summary (part %s)" % part)
    return fails
