"""C05 (and C01 at 64-bit scale): evaluate accepted "wide" expressions through the REAL generated C++.

For every accepted case of the BoundsGen wide family the module is compiled again with a C++ namespace of
its own, a driver sets the leaves to landmark values through the generated view (Write), and reads the
virtual field `v` back (Ok(), Read() printed in decimal).  Nothing is computed here: TLC (WideEval.tla)
evaluates the expression over the integers and compares.
"""
import os
import re
import subprocess

from . import bounds_render, cpp, emb
from .common import MachineryError, run_parallel

FLAGS = ("fa", "fb", "fc")


def _range(v):
    if v["k"] == "UInt":
        return 0, 2 ** v["w"] - 1
    return -(2 ** (v["w"] - 1)), 2 ** (v["w"] - 1) - 1


def landmarks(v):
    lo, hi = _range(v)
    c = [lo, hi, 0, 1, -1, lo + 1, hi - 1, 2 ** 31 - 1, 2 ** 31, 2 ** 32 - 1, 2 ** 32, 2 ** 63 - 1, 2 ** 63, -(2 ** 31), -(2 ** 31) - 1,
         (lo + hi) // 2, 12345]
    out = []
    for x in c:
        if lo <= x <= hi and x not in out:
            out.append(x)
    return out


def _used(e, acc):
    if e["k"] == "var":
        acc.add(e["n"])
    for a in e.get("args", ()):
        _used(a, acc)
    return acc


def environments(case, n_env):
    """Deterministic landmark assignments: all-min, all-max, then rotating through each leaf's landmark list."""
    names = sorted(_used(case["e"], set()))
    byname = {v["n"]: v for v in case["vars"]}
    lms = {}
    for n in names:
        lms[n] = landmarks(byname[n]) if n in byname else [0, 1]
    envs = []
    for k in range(n_env):
        env = {}
        for j, n in enumerate(names):
            L = lms[n]
            if k == 0:
                env[n] = L[0]
            elif k == 1:
                env[n] = L[1 % len(L)]
            else:
                env[n] = L[(k + 3 * j) % len(L)]
        if env not in envs:
            envs.append(env)
    return envs


def lit(x):
    if x < 0:
        return "(-INT64_C(%d) - 1)" % (-x - 1)
    if x > 2 ** 63 - 1:
        return "UINT64_C(%d)" % x
    return "INT64_C(%d)" % x


PRELUDE = r'''
#include <cstdint>
#include <cstdio>
#include <cstring>
#include <type_traits>
template <class T> static typename std::enable_if<std::is_same<T, bool>::value>::type pr(FILE *o, T x) { std::fprintf(o, "B %d\n", x ? 1 : 0); }
template <class T> static typename std::enable_if<!std::is_same<T, bool>::value && std::is_signed<T>::value>::type pr(FILE *o, T x) { std::fprintf(o, "I %lld\n", static_cast<long long>(x)); }
template <class T> static typename std::enable_if<!std::is_same<T, bool>::value && !std::is_signed<T>::value>::type pr(FILE *o, T x) { std::fprintf(o, "I %llu\n", static_cast<unsigned long long>(x)); }
template <class F> static void emit(FILE *o, int id, int k, F f) {
  std::fprintf(o, "%d %d ", id, k);
  if (!f.Ok()) { std::fprintf(o, "U\n"); return; }
  pr(o, f.Read());
}
'''


def prepare_tu(d, tu, items, defs):
    """items: [(rec, envs)].  Writes the headers (real compiler, in this process) and the driver source."""
    src = [PRELUDE]
    body = []
    for rec, envs in items:
        cid = rec["id"]
        text = bounds_render.render(rec, defs)
        lines = text.split("\n")
        lines.insert(1, '[(cpp) namespace: "wv::c%d"]' % cid)
        text = "\n".join(lines)
        name = "c%d.emb" % cid
        header, _ir, errors = emb.compile_header({name: text}, name)
        if errors or header is None:
            raise MachineryError("wide case %s compiled before but not now:\n%s" % (cid, text))
        with open(os.path.join(d, name + ".h"), "w") as f:
            f.write(header)
        src.append('#include "%s.h"' % name)
        params = [v for v in rec["vars"] if v["param"]]
        phys = [v for v in rec["vars"] if not v["param"]]
        used = _used(rec["e"], set())
        flags = sorted(n for n in used if n not in {v["n"] for v in rec["vars"]})
        size = sum((v["w"] + 7) // 8 for v in phys) + len(flags) + 8
        body.append("static void run_%d(FILE *o) {" % cid)
        body.append("  unsigned char buf[%d];" % size)
        for k, env in enumerate(envs):
            body.append("  { std::memset(buf, 0, sizeof buf);")
            args = "".join("%s, " % lit(env.get(p["n"], 0)) for p in params)
            body.append("    auto v = wv::c%d::MakeFooView(%sbuf, sizeof buf);" % (cid, args))
            for v in phys:
                if v["n"] in env:
                    body.append("    v.%s().Write(static_cast<typename std::decay<decltype(v.%s().Read())>::type>(%s));" % (v["n"], v["n"], lit(env[v["n"]])))
            for n in flags:
                body.append("    v.%s().Write(%d);" % (n, env.get(n, 0)))
            body.append("    emit(o, %d, %d, v.v()); }" % (cid, k))
        body.append("}")
    src += body
    src.append("int main(int argc, char **argv) { FILE *o = std::fopen(argv[1], \"w\"); if (!o) return 2;")
    for rec, _e in items:
        src.append("  run_%d(o);" % rec["id"])
    src.append("  std::fclose(o); return 0; }")
    sp = os.path.join(d, "tu%d.cc" % tu)
    with open(sp, "w") as f:
        f.write("\n".join(src) + "\n")


def run_tu(d, tu, items, san=False):
    """Builds and runs one prepared translation unit; returns (status, {id: {env: (kind, text)}} | detail, ids)."""
    sp = os.path.join(d, "tu%d.cc" % tu)
    exe = os.path.join(d, "tu%d" % tu)
    rc, out = cpp.build(sp, exe, includes=[d], opt="-O1", san=san)
    if rc != 0:
        return ("BUILD_FAILED", out, [r["id"] for r, _e in items])
    outp = os.path.join(d, "tu%d.out" % tu)
    env = dict(os.environ, ASAN_OPTIONS="detect_leaks=0:abort_on_error=0:exitcode=66", UBSAN_OPTIONS="print_stacktrace=1:halt_on_error=1:exitcode=67")
    p = subprocess.run([exe, outp], stdout=subprocess.PIPE, stderr=subprocess.PIPE, text=True, timeout=900, errors="replace", env=env)
    if p.returncode != 0:
        return ("RUN_FAILED", "rc=%s %s" % (p.returncode, p.stderr[-2000:]), [r["id"] for r, _e in items])
    res = {}
    with open(outp) as f:
        for line in f:
            m = re.match(r"(\d+) (\d+) (U|B|I)(?: (-?\d+))?$", line.strip())
            if not m:
                raise MachineryError("unparseable driver line %r" % line)
            res.setdefault(int(m.group(1)), {})[int(m.group(2))] = (m.group(3), m.group(4) or "0")
    os.remove(exe)
    return ("OK", res, None)


def evaluate(scratch, recs, defs, n_env=6, per_tu=30, nproc=8, san=False):
    """recs: accepted wide records.  Returns (cases for WideEval.tla, failures [(status, detail, ids)])."""
    d = scratch.sub("wideval")
    plan = [(r, environments(r, n_env)) for r in recs]
    plan = [(r, e) for r, e in plan if e]
    tus = [plan[i:i + per_tu] for i in range(0, len(plan), per_tu)]
    # headers are generated in this process (the real compiler is not thread-safe by contract); builds run in parallel
    prepared = []
    for t, items in enumerate(tus):
        prepare_tu(d, t, items, defs)
        prepared.append((t, items))
    results = run_parallel([(lambda t=t, items=items: run_tu(d, t, items, san)) for t, items in prepared], nproc=nproc)
    cases, failures = [], []
    for (t, items), (status, payload, ids) in zip(prepared, results):
        if status != "OK":
            failures.append((status, payload, ids))
            continue
        for rec, envs in items:
            got = payload.get(rec["id"], {})
            evs = []
            for k, env in enumerate(envs):
                kind, txt = got.get(k, ("U", "0"))
                neg = txt.startswith("-")
                evs.append({"vals": [{"n": n, "neg": x < 0, "l": bounds_render.int_to_limbs(x)} for n, x in sorted(env.items())],
                            "kind": kind, "neg": neg, "d": [int(ch) for ch in txt.lstrip("-")]})
            cases.append({"id": rec["id"], "e": rec["e"], "vars": rec["vars"], "envs": evs})
    return cases, failures
