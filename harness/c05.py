"""C05 - inferred integer bounds and alignments are sound, and tight where documented.

  MC   spec/common/BigIntMC, spec/bounds/BoundsMC ("theorem": one application of every transfer
       function of the design to every pair of small abstract arguments; "compose": leaves and
       constants, two operators deep): Sound / Tight / WellFormed / ConstExact / BoundInv.
  G+V  spec/bounds/BoundsGen generates expressions (exhaustive depth <= 1 over the whole leaf
       catalogue + seeded -simulate, depth <= 3 quick / 4 thorough; and the 64-bit "wide" family);
       bounds_render places each in a struct; the REAL front end compiles it (bounds_pool);
       bounds_ir transcribes, for every subexpression, what the compiler inferred;
       spec/bounds/BoundsCheck (all environments, native integers) and spec/bounds/BoundsWide
       (BigInt interval arithmetic, 64-bit gate) decide every clause.  Python never decides.
"""
import collections
import json
import os
import re
import shutil
import sys
import time

from . import bounds_pool, bounds_render
from .common import (MachineryError, NCPU, SPEC, VERIF, Scratch, chunks, dump_json, run_parallel, run_tlc, write_cfg)

LEVEL = "model_checking"

TIERS = {
    "quick": dict(bigint_n=60, thm=dict(V=3, ModMax=6, C=3, W=8, VW=1), cmp_c=1,
                  sim_cases=800, sim_depth=3, wide_cases=600, gen_procs=8, exh_depth=1, exh_full=False),
    "thorough": dict(bigint_n=300, thm=dict(V=4, ModMax=12, C=4, W=14, VW=2), cmp_c=3,
                     sim_cases=24000, sim_depth=4, wide_cases=8000, gen_procs=14, exh_depth=1, exh_full=True),
}

# cap on concurrently running subprocesses (TLC instances, compile workers); VERIF_JOBS=4 while the box is shared
JOBS = max(1, int(os.environ.get("VERIF_JOBS", "0") or 0) or NCPU)

BOUNDS = os.path.join(SPEC, "bounds")
COMMON = os.path.join(SPEC, "common")


def _stage(sc, sub, module, src_dir=BOUNDS):
    """Copy the root module into a scratch sub-directory (TLC writes next to it)."""
    d = sc.sub(sub)
    dst = os.path.join(d, module + ".tla")
    shutil.copy(os.path.join(src_dir, module + ".tla"), dst)
    return d, dst


# ---------------------------------------------------------------------------------------------
# design-level model checking
# ---------------------------------------------------------------------------------------------

def _mc_bigint(chk, sc, t):
    d, mod = _stage(sc, "mc-bigint", "BigIntMC", COMMON)
    cfg = os.path.join(d, "mc.cfg")
    write_cfg(cfg, constants={"N": t["bigint_n"]}, invariants=["Agree"])
    res = run_tlc(mod, cfg, workers=min(4, JOBS), coverage=True, metadir=os.path.join(d, "meta"), timeout=1500)
    return "mc-bigint", res


def _mc_bounds(chk, sc, t, name, consts, workers):
    d, mod = _stage(sc, "mc-" + name, "BoundsMC")
    cfg = os.path.join(d, "mc.cfg")
    write_cfg(cfg, constants=consts,
              invariants=["SoundInv", "TightInv", "WFInv", "ConstInv", "SingletonInv", "BoundInv"])
    res = run_tlc(mod, cfg, lib_areas=("bounds",), workers=workers, coverage=True,
                  metadir=os.path.join(d, "meta"), timeout=2400)
    return "mc-" + name, res


# ---------------------------------------------------------------------------------------------
# generation
# ---------------------------------------------------------------------------------------------

def _gen(sc, name, consts, simulate, seed, depth=120, timeout=1500):
    d, mod = _stage(sc, "gen-" + name, "BoundsGen")
    cfg = os.path.join(d, "gen.cfg")
    write_cfg(cfg, constants=consts)
    res = run_tlc(mod, cfg, lib_areas=("bounds",), workers=1, simulate=simulate, depth=depth if simulate else None,
                  seed=seed, metadir=os.path.join(d, "meta"), timeout=timeout, coverage=not simulate)
    out = res.printed_json()
    defs = [o["defs"] for o in out if "defs" in o]
    cases = [o for o in out if "e" in o]
    if not defs:
        raise MachineryError("generator %s printed no definitions:\n%s" % (name, res.out[-2000:]))
    return name, res, defs[0], cases


def _tla_set(xs):
    return "{" + ", ".join('"%s"' % x for x in xs) + "}"


# ---------------------------------------------------------------------------------------------
# validation
# ---------------------------------------------------------------------------------------------

def _check_shard(sc, module, name, recs):
    d, mod = _stage(sc, "chk-" + name, module)
    cases = os.path.join(d, "cases.json")
    slim = [{k: v for k, v in r.items() if k not in ("emb", "errors", "skipped", "nodes", "src")} for r in recs]
    dump_json(cases, slim)
    cfg = os.path.join(d, "chk.cfg")
    write_cfg(cfg, invariants=["Finished"])
    res = run_tlc(mod, cfg, lib_areas=("bounds",), workers=1, env={"CASES_FILE": cases},
                  metadir=os.path.join(d, "meta"), timeout=3000, heap="3g")
    out = res.printed_json()
    summ = [o for o in out if o.get("summary")]
    if not res.clean or len(summ) != 1 or summ[0]["cases"] != len(recs):
        raise MachineryError("%s shard %s did not complete:\n%s" % (module, name, res.error_trace_tail(60)))
    return res, summ[0], [o for o in out if "clause" in o]


def _check_wideval(sc, name, cases):
    d = sc.sub("chk-" + name)
    mod = os.path.join(d, "WideEvalRun.tla")
    with open(mod, "w") as f:
        f.write("---- MODULE WideEvalRun ----\nEXTENDS WideEval\n====\n")
    cf = os.path.join(d, "cases.json")
    dump_json(cf, cases)
    cfg = os.path.join(d, "chk.cfg")
    write_cfg(cfg, invariants=["Finished"])
    res = run_tlc(mod, cfg, lib_areas=("bounds",), workers=1, env={"CASES_FILE": cf}, metadir=os.path.join(d, "meta"), timeout=3000, heap="3g")
    out = res.printed_json()
    summ = [o for o in out if isinstance(o, dict) and o.get("summary")]
    if not res.clean or len(summ) != 1 or summ[0]["cases"] != len(cases):
        raise MachineryError("WideEval shard %s did not complete:\n%s" % (name, res.error_trace_tail(60)))
    return res, summ[0], [o for o in out if isinstance(o, dict) and "clause" in o]


def _wideval_report(chk, sc, rec, defs, n_env, first_fails, tag):
    """Confirms the wideval failures of one case in isolation and reports those that show again."""
    from . import bounds_cpp
    sub = Scratch.__new__(Scratch)
    sub.path = sc.sub("confirm-" + tag)
    wcases, wfail = bounds_cpp.evaluate(sub, [rec], defs, n_env=n_env, nproc=1)
    if wfail:
        raise MachineryError("wideval: case %s was driven before but not in isolation: %r" % (rec["id"], wfail[0][:2]))
    _res, _summ, again = _check_wideval(sc, "confirm-" + tag, wcases)
    key = lambda f: (f["env"], f["clause"], json.dumps(f.get("got"), sort_keys=True))
    if {key(f) for f in again} != {key(f) for f in first_fails}:
        keep = os.path.join(os.environ.get("VERIF_REPLAY_DIR") or os.path.join(VERIF, "replays"), "C05-wideval-unconfirmed-%s" % tag)
        shutil.rmtree(keep, ignore_errors=True)
        shutil.copytree(os.path.join(sc.path, "wideval"), keep, ignore=shutil.ignore_patterns("*.emb.h"))
        raise MachineryError("wideval: the failure of case %s did not show again when the case was driven alone (first: %r, alone: %r); "
                             "driver sources and outputs kept in %s" % (rec["id"], first_fails[:2], again[:2], keep))
    case = wcases[0]
    for f in again:
        env = case["envs"][f["env"] - 1]
        vals = {v["n"]: (-1 if v["neg"] else 1) * bounds_render.limbs_to_int(v["l"]) for v in env["vals"]}
        chk.violation("wideval:%s:%s" % (f["clause"], rec["e"].get("fn", rec["e"]["k"])),
                      "generated C++ computes a different value than the expression denotes: %s with %s: reference %s, "
                      "implementation %s\n%s" % (bounds_render.expr(rec["e"]), vals, f["want"], f["got"], rec["emb"]),
                      {"case": {k: v for k, v in rec.items() if k != "trees"}, "env": vals, "failure": f, "wideval": True})


def _exception_key(rec):
    """Stable name of a front-end crash: exception type + innermost compiler function (+ enum member, if any)."""
    first = rec["errors"][0] if rec["errors"] else "?"
    tb = rec["errors"][1] if len(rec["errors"]) > 1 else ""
    typ = re.match(r"(\w+)", first)
    frames = re.findall(r'File "[^"]*compiler/[^"]*", line \d+, in (\w+)', tb)
    member = re.search(r"<(\w+\.\w+): \d+>", first)
    return "front-end-exception:%s:%s%s" % (typ.group(1) if typ else "?", frames[-1] if frames else "?",
                                           ":" + member.group(1) if member else "")


def _show_ty(ty):
    if not isinstance(ty, dict):
        return str(ty)
    if ty.get("t") == "i" and "min" in ty:
        def ext(e):
            if e["inf"]:
                return "-inf" if e["inf"] < 0 else "+inf"
            if "l" in e:
                return str((-1 if e["neg"] else 1) * bounds_render.limbs_to_int(e["l"]))
            return str(e["v"])
        mod = ty.get("mod")
        if isinstance(mod, dict):
            mod = "infinity" if ty.get("modinf") else bounds_render.limbs_to_int(mod["l"])
            rem = (-1 if ty["rem"]["neg"] else 1) * bounds_render.limbs_to_int(ty["rem"]["l"])
        else:
            rem = ty.get("rem")
            mod = "infinity" if mod == 0 else mod
        return "[min=%s max=%s modulus=%s modular_value=%s]" % (ext(ty["min"]), ext(ty["max"]), mod, rem)
    return json.dumps(ty, sort_keys=True)


def _report(chk, fails, by_id):
    has_primary = {f["id"] for f in fails if f.get("primary", True)}
    for f in fails:
        if not f.get("primary", True) and f["id"] in has_primary:
            continue  # inherited from an operand that is reported itself
        rec = by_id[f["id"]]
        clause = f["clause"]
        if clause == "FrontEndException":
            key = _exception_key(rec)
            desc = "the front end raised on a well-formed module: %s\n%s" % (rec["errors"][0], rec["emb"])
        elif clause in ("RejectedSmall", "RejectedButFits"):
            key = clause
            desc = "the front end rejected a module whose every expression value fits 64 bits: %s\n%s" % (
                rec["errors"][:1], rec["emb"])
        else:
            key = "%s:%s" % (clause, f.get("what", ""))
            extra = ""
            if "lo" in f and isinstance(f["lo"], dict):
                lo = (-1 if f["lo"]["neg"] else 1) * bounds_render.limbs_to_int(f["lo"]["mag"])
                hi = (-1 if f["hi"]["neg"] else 1) * bounds_render.limbs_to_int(f["hi"]["mag"])
                extra = " exact interval of the node: [%d, %d];" % (lo, hi)
            desc = ("clause %s fails at node #%s (%s) of %s;%s inferred %s; witness value(s) %s\nexpression: %s\n%s" % (
                clause, f.get("node"), f.get("what"), f.get("role", "let v"), extra, _show_ty(f.get("ty")),
                f.get("wit", []), bounds_render.expr(rec["e"]), rec["emb"]))
        payload = {k: v for k, v in rec.items() if k != "trees"}
        payload["failure"] = f
        chk.violation(key, desc, payload)


def _selftest(chk, sc, recs):
    """The binding bites: corrupt single recorded fields of a good record; every corruption must be rejected."""
    import copy
    base = None
    for r in recs:
        e = r["e"]
        if (r["fam"] == "small" and r["status"] == "accepted" and e["k"] == "op" and e["fn"] in ("+", "-")
                and [a["k"] for a in e["args"]] == ["var", "var"] and e["args"][0]["n"] != e["args"][1]["n"]):
            base = r
            break
    if base is None:
        chk.extra["binding_bites"] = "no suitable record (var +/- var) in this run"
        return
    def root(rec):
        return [t for t in rec["trees"] if t["role"] == "f:v:value"][0]["t"]
    muts = {
        "maximum_value - 1": lambda t: t["ty"]["max"].__setitem__("v", t["ty"]["max"]["v"] - 1),
        "minimum_value - 1": lambda t: t["ty"]["min"].__setitem__("v", t["ty"]["min"]["v"] - 1),
        "modulus 1 -> 2": lambda t: t["ty"].__setitem__("mod", 2),
        "constant_value None -> 0": lambda t: t["cv"].update({"has": True, "v": 0}),
        "operand annotation: maximum_value + 1": lambda t: t["args"][0]["ty"]["max"].__setitem__(
            "v", t["args"][0]["ty"]["max"]["v"] + 1),
    }
    bad = []
    for n, (name, fn) in enumerate(muts.items()):
        r = copy.deepcopy(base)
        r["id"] = n
        fn(root(r))
        bad.append(r)
    good = copy.deepcopy(base)
    good["id"] = len(bad)
    res, summ, fails = _check_shard(sc, "BoundsCheck", "selftest", bad + [good])
    chk.add_tlc(res, part="selftest")
    got = collections.defaultdict(set)
    for f in fails:
        got[f["id"]].add(f["clause"])
    report = {name: sorted(got.get(n, ())) for n, name in enumerate(muts)}
    chk.extra["binding_bites"] = {"record": bounds_render.expr(base["e"]), "corruption -> clauses": report}
    missed = [name for name, cl in report.items() if not cl]
    if missed or got.get(len(bad)):
        raise MachineryError("self-test of the binding failed: unnoticed corruptions %s, clean record flagged %s" % (
            missed, sorted(got.get(len(bad), ()))))


def _count_nontrivial(chk, cases):
    def walk(e, acc):
        if e["k"] == "var":
            acc["v"] += 1
        if e["k"] == "op":
            acc["o"] += 1
            acc["ops"].add(e["fn"])
        for a in e.get("args", ()):
            walk(a, acc)
        return acc
    ops = collections.Counter()
    for c in cases:
        acc = walk(c["e"], {"v": 0, "o": 0, "ops": set()})
        for o in acc["ops"]:
            ops[o] += 1
        if acc["v"] and acc["o"]:
            chk.note_nontrivial(c["fam"] + ":" + json.dumps(c["e"], sort_keys=True) + json.dumps(
                [v for v in c["vars"]], sort_keys=True))
    return dict(sorted(ops.items()))


# ---------------------------------------------------------------------------------------------

def run(chk, only=None):
    t = dict(TIERS[chk.tier])
    scale = float(os.environ.get("VERIF_C05_SCALE", "1") or 1)   # development aid: fewer random cases
    if scale != 1:
        t["sim_cases"] = max(8, int(t["sim_cases"] * scale))
        t["wide_cases"] = max(8, int(t["wide_cases"] * scale))
        t["gen_procs"] = max(1, min(t["gen_procs"], t["sim_cases"] // 50 + 1))
        chk.extra["scaled_by_VERIF_C05_SCALE"] = scale
    seed = chk.seed
    want = lambda p: only is None or p in only
    t0 = time.time()
    phases = {}

    def mark(name):
        phases[name] = round(time.time() - t0, 1)
        print("c05: %s done at %.0fs" % (name, time.time() - t0), file=sys.stderr, flush=True)

    with Scratch("c05") as sc:
        # ---- phase 1: design-level MC and case generation, all in parallel (TLC subprocesses)
        jobs = []
        if want("mc"):
            thm = dict(t["thm"], MaxOps=1, MaxStk=2, Pushes=_tla_set(["leaf", "const", "any", "window"]))
            cmp_ = dict(V=1, ModMax=1, C=t["cmp_c"], W=1, VW=1, MaxOps=2, MaxStk=3, Pushes=_tla_set(["leaf", "const"]))
            jobs.append(lambda: _mc_bigint(chk, sc, t))
            jobs.append(lambda: _mc_bounds(chk, sc, t, "theorem", thm, min(4, JOBS)))
            jobs.append(lambda: _mc_bounds(chk, sc, t, "compose", cmp_, 2))
        gens = []
        if want("exh") or want("small"):
            gens.append(("exh", dict(Family='"small"', Exhaustive="TRUE", MaxDepth=t["exh_depth"], MaxMag=100000,
                                     NVars=3, FullConsts="TRUE" if t["exh_full"] else "FALSE"), None, 0))
        if want("sim") or want("small"):
            per = -(-t["sim_cases"] // t["gen_procs"])
            for k in range(t["gen_procs"]):
                gens.append(("sim%d" % k, dict(Family='"small"', Exhaustive="FALSE", MaxDepth=t["sim_depth"],
                                               MaxMag=100000, NVars=3, FullConsts="FALSE"), per, seed * 1000 + k + 1))
        if want("wide"):
            procs = max(2, t["gen_procs"] // 2)
            per = -(-t["wide_cases"] // procs)
            for k in range(procs):
                gens.append(("wide%d" % k, dict(Family='"wide"', Exhaustive="FALSE", MaxDepth=3, MaxMag=0, NVars=3,
                                                FullConsts="FALSE"),
                             per, seed * 1000 + 500 + k))
        for g in gens:
            jobs.append(lambda g=g: _gen(sc, g[0], g[1], g[2], g[3]))
        results = run_parallel(jobs, nproc=max(1, JOBS // 2) if JOBS < NCPU else NCPU)
        mark("mc+generate")

        cases, defs = [], None
        for r in results:
            if len(r) == 2:
                name, res = r
                if not res.clean or not res.completed:
                    # a violated invariant of the design-level model is a defect of the specification
                    raise MachineryError("design-level model check %s failed:\n%s" % (name, res.error_trace_tail(80)))
                chk.add_tlc(res, part=name)
            else:
                name, res, d, cs = r
                chk.add_tlc(res, part="gen-" + re.sub(r"\d+$", "", name))
                defs = defs or d
                for c in cs:
                    c["src"] = name
                cases.extend(cs)
        if want("mc"):
            chk.extra["mc_constants"] = {"theorem": t["thm"], "compose_C": t["cmp_c"], "bigint_N": t["bigint_n"]}
        if not cases:
            chk.rule = "design-level model checking only"
            return
        # de-duplicate (the random generators may repeat themselves); ids are positions
        seen, uniq = set(), []
        for c in cases:
            k = json.dumps([c["fam"], c["vars"], c["e"], c["pos"]], sort_keys=True)
            if k not in seen:
                seen.add(k)
                uniq.append(c)
        cases = uniq
        for n, c in enumerate(cases):
            c["id"] = n
        op_hist = _count_nontrivial(chk, cases)

        # ---- phase 2: the real front end
        recs = bounds_pool.compile_cases(cases, defs, nproc=JOBS)
        by_id = {r["id"]: r for r in recs}
        mark("compile")
        status = collections.Counter((r["fam"], r["status"]) for r in recs)

        # ---- phase 3: TLC decides
        small = [r for r in recs if r["fam"] == "small"]
        wide = [r for r in recs if r["fam"] == "wide"]
        # heavier cases first so that shards are balanced round-robin
        small.sort(key=lambda r: -r["nodes"])
        nsh = max(1, min(JOBS, len(small) // 40 + 1))
        wsh = max(1, min(max(1, JOBS // 2), len(wide) // 100 + 1))
        jobs = []
        for k in range(nsh):
            part = small[k::nsh]
            if part:
                jobs.append(lambda k=k, part=part: ("small", _check_shard(sc, "BoundsCheck", "s%d" % k, part)))
        for k in range(wsh):
            part = wide[k::wsh]
            if part:
                jobs.append(lambda k=k, part=part: ("wide", _check_shard(sc, "BoundsWide", "w%d" % k, part)))
        totals = collections.Counter()
        all_fails = []
        for fam, (res, summ, fails) in run_parallel(jobs, nproc=JOBS):
            chk.add_tlc(res, part="validate-" + fam)
            for k, v in summ.items():
                if isinstance(v, int) and not isinstance(v, bool):
                    totals[fam + "_" + k] += v
            all_fails.extend(fails)
        mark("validate")
        if not all_fails:
            _selftest(chk, sc, recs)
            mark("selftest")
        # ---- phase 4: values computed by the generated C++ at 64-bit scale (WideEval.tla)
        if want("wideval") and wide:
            from . import bounds_cpp
            acc = [r for r in wide if r["status"] == "accepted" and r["pos"] == "let"]
            acc.sort(key=lambda r: r["id"])
            acc = acc[: t.get("wideval_cases", 240)]
            wcases, wfail = bounds_cpp.evaluate(sc, acc, defs, n_env=t.get("wideval_envs", 6), nproc=JOBS)
            for wstatus, detail, ids in wfail:
                chk.violation("wideval:%s" % wstatus.lower(), "driver over the generated headers of accepted wide cases %s: %s\n%s" % (
                    ids[:5], wstatus, str(detail)[-2000:]), {"ids": ids, "emb": [by_id[i]["emb"] for i in ids[:3]]})
            if wcases:
                wshards = [wcases[k::4] for k in range(4) if wcases[k::4]]
                wjobs = [(lambda k=k, part=part: _check_wideval(sc, "we%d" % k, part)) for k, part in enumerate(wshards)]
                nev = 0
                wfails = []
                for res, summ, fails in run_parallel(wjobs, nproc=4):
                    chk.add_tlc(res, part="validate-wideval")
                    nev += summ["evals"]
                    wfails.extend(fails)
                # A defect of the generated code is deterministic: every failing case is driven and judged once more, alone in
                # a translation unit of its own; only a failure that shows again is reported (one that does not is a failure
                # of this machinery and stops the check with its artefacts kept).
                for fid in sorted({f["id"] for f in wfails}):
                    rec = by_id[fid]
                    _wideval_report(chk, sc, rec, defs, t.get("wideval_envs", 6), [f for f in wfails if f["id"] == fid], "c%d" % fid)
                totals["wideval_evals"] = nev
                chk.extra["wideval"] = {"accepted_cases_driven": len(wcases), "evaluations": nev}
            mark("wideval")
        chk.extra["phase_wall_s"] = phases
        _report(chk, all_fails, by_id)

        # ---- evidence
        chk.traces = len(recs)
        chk.evaluations = totals.get("small_evals", 0) + totals.get("wide_nodes", 0)
        chk.rule = ("cases = expressions derived by BoundsGen (exhaustive to depth %d over 8 leaf types x constants, "
                    "plus -simulate depth <= %d, plus the 64-bit family), each compiled by the real front end; every "
                    "subexpression's inferred (min,max,modulus,modular_value) is validated against ALL environments; "
                    "non-trivial = contains at least one field/parameter and one operator" % (t["exh_depth"], t["sim_depth"]))
        chk.extra["cases_by_family_and_status"] = {"%s/%s" % k: v for k, v in sorted(status.items())}
        chk.extra["operators_in_cases"] = op_hist
        chk.extra["validation_totals"] = dict(sorted(totals.items()))
        chk.extra["failure_clauses"] = dict(collections.Counter(f["clause"] for f in all_fails))
        chk.extra["untranscribed_expressions"] = dict(collections.Counter(
            re.sub(r"^f:\w+:", "f:*:", s) for r in recs for s in r["skipped"]).most_common(5))
        chk.assumptions += [
            "environments range over the documented value sets of UInt:n / Int:n / Bcd:n fields and parameters (leaves are unconditional fields)",
            "$upper_bound/$lower_bound nodes evaluate to the constant the compiler substituted; that constant is checked against the argument's value set",
            "Tight is demanded only when every variable occurs once below the node and every ?: condition below it goes both ways or is a compiler-known constant",
            "Precision (annotation at least as precise as the design transfer function applied to the operands' recorded annotations) follows compiler-design.md: refinements may only get tighter",
            "64-bit family: exact intervals by BigInt interval arithmetic (single-occurrence expressions, conditions are fresh one-bit flags)",
        ]
        for r in recs:
            if r["status"] == "accepted" and r["e"]["k"] == "op" and r["src"].startswith(("sim", "wide")):
                chk.sample({"family": r["fam"], "expression": bounds_render.expr(r["e"]), "position": r["pos"],
                            "vars": ["%s:%s:%d" % (v["n"], v["k"], v["w"]) for v in r["vars"]],
                            "annotated_nodes": r["nodes"]})
        if chk.tier == "quick":
            chk.exhaustive = False


def replay(chk, path):
    """Re-run one recorded case (the payload of a VIOLATION) through compile + validation."""
    with open(path) as f:
        rp = json.load(f)
    case = rp["case"]
    wideval = isinstance(case, dict) and case.get("wideval")
    if wideval:
        case = case["case"]
    if not case or "e" not in case:
        raise MachineryError("replay file has no case")
    case = {k: case[k] for k in ("fam", "vars", "e", "ty", "pos")}
    case["id"] = 0
    with Scratch("c05r") as sc:
        name, res, defs, _ = _gen(sc, "defs", dict(Family='"small"', Exhaustive="TRUE", MaxDepth=0, MaxMag=1, NVars=1,
                                                     FullConsts="FALSE"),
                                  None, 0)
        recs = bounds_pool.compile_cases([case], defs, nproc=1)
        if wideval:
            chk.traces = 1
            if recs[0]["status"] != "accepted":
                raise MachineryError("the replayed wide case is no longer accepted")
            from . import bounds_cpp
            wcases, wfail = bounds_cpp.evaluate(sc, recs, defs, n_env=TIERS["thorough"].get("wideval_envs", 6), nproc=1)
            if wfail:
                chk.violation("wideval:%s" % wfail[0][0].lower(), str(wfail[0][1])[-2000:], {"case": case, "wideval": True})
                return
            res, summ, fails = _check_wideval(sc, "r", wcases)
            chk.add_tlc(res, part="replay-wideval")
            if fails:
                _wideval_report(chk, sc, recs[0], defs, TIERS["thorough"].get("wideval_envs", 6), fails, "r")
            return
        module = "BoundsCheck" if case["fam"] == "small" else "BoundsWide"
        res, summ, fails = _check_shard(sc, module, "r", recs)
        chk.add_tlc(res, part="replay")
        chk.traces = 1
        _report(chk, fails, {0: recs[0]})
