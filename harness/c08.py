"""C08 - the LR(1) generator builds a parser for exactly the grammar's language.

Parts (for --only):
  machine-mc  LRCheck.tla: TLC explores the shift-reduce machine (LRMachine) on the tables the REAL generator
              produced for a catalogue of textbook grammars, over ALL strings up to a bound, with the property's
              clauses as invariants (Earley recognizer of CFG.tla as the independent oracle).
  gen-mc      the generators themselves, model-checked on small constants (SentenceGen on a small grammar).
  catalogue   LRCases.tla on the catalogue incl. degenerate shapes: recorded runs of the REAL Parser.parse.
  small       GrammarGen.tla enumerates / samples small CFGs; for each the REAL lr1.Grammar(...).parser() is built,
              the REAL Parser.parse is run on all strings up to a bound; LRCases.tla validates every run.
  emboss      SentenceGen.tla sentences of the real 224-production grammar + token mutations, parsed by the parser
              the REAL generator builds for module_ir.PRODUCTIONS; LRCases.tla validates with Earley on that grammar.
TLC decides everything; Python builds inputs, runs the real code, records, and reads TLC's output.
"""
import json
import os

from .common import Scratch, MachineryError, dump_json, run_parallel, NCPU
from . import grammar_cases as gc
from . import grammar_gen
from .grammar_tlc import tlc

LEVEL = "model_checking"

MC_INVARIANTS = ["Shape", "Terminates", "NeverStuck", "AcceptOnlyAtEndWithOneTree", "ErrorAtLookahead",
                 "StackSpellsConsumedInput", "ExpectedConflictFree", "AmbiguousImpliesConflicts",
                 "AcceptIffDerives", "TreeIsDerivation", "ErrorAtFirstNonViable", "ConsumedPrefixViable",
                 "ExpectedAreContinuations"]
GEN_INVARIANTS = ["SentenceDerives", "DerivationStaysViable", "BudgetRespected", "NeedIsLeastYield",
                  "LeftmostIsNonterminal", "OriginTracksTodo", "MutantIsOneEditAway"]

TIERS = {
    # exhaustive family, sampled families [(nts, ts, max_rhs, max_prods, traces)], string bound for 2 / 3 terminals,
    # emboss derivations, shards (ambiguity is searched among all strings up to the same bound)
    "quick": {"exh": ("NT2", "T2", 2, 2), "samples": [("NT2", "T2", 2, 3, 800), ("NT3", "T3", 3, 4, 200)],
              "n2": 5, "n3": 4, "emboss": 90, "emboss_tokens": 60, "procs": 12, "gen_procs": 3,
              "idioms": [(2, True), (3, False)]},
    "thorough": {"exh": ("NT2", "T2", 2, 3), "samples": [("NT3", "T3", 3, 4, 2000), ("NT3", "T3", 3, 5, 2000)],
                 "n2": 6, "n3": 4, "emboss": 1500, "emboss_tokens": 60, "procs": 14, "gen_procs": 8,
                 "idioms": [(3, True)]},
}


def _shards(cases, k):
    """Split cases into <= k lists with about the same number of recorded runs."""
    k = max(1, min(k, len(cases)))
    bins = [[0, []] for _ in range(k)]
    for c in sorted(cases, key=lambda c: -len(c["runs"])):
        b = min(bins, key=lambda b: b[0])
        b[0] += len(c["runs"]) + 20
        b[1].append(c)
    return [b[1] for b in bins if b[1]]


def _validate(chk, sc, tag, cases, family, procs, part, heap="3g"):
    """Run LRCases.tla over the cases (sharded); turn TLC's mismatch lines into violations."""
    by_id = {c["id"]: c for c in cases}
    shards = _shards(cases, procs)
    paths = []
    for n, sh in enumerate(shards):
        p = sc.file("%s-%d.json" % (tag, n))
        dump_json(p, sh)
        paths.append(p)

    def job(n):
        return tlc(sc, "LRCases", "%s-%d" % (tag, n), invariants=["Checked"], env={"CASES_FILE": paths[n]},
                   workers=1, timeout=2400, heap=heap)
    results = run_parallel([(lambda n=n: job(n)) for n in range(len(shards))], nproc=procs)
    tot = {"cases": 0, "conflictFree": 0, "runs": 0, "accepted": 0, "mismatches": 0}
    for res in results:
        chk.add_tlc(res, part=part)
        if not res.clean:
            raise MachineryError("LRCases did not complete:\n" + res.error_trace_tail())
        nsum = 0
        for r in res.printed_json():
            if not isinstance(r, dict):
                continue
            if "summary" in r:
                nsum += 1
                for k in tot:
                    tot[k] += r["summary"][k]
            elif "ex" in r:
                _report(chk, family, r, by_id)
        if nsum == 0:
            raise MachineryError("LRCases printed no summary:\n" + res.out[-2000:])
    if tot["cases"] != len(cases) or tot["runs"] != sum(len(c["runs"]) for c in cases):
        raise MachineryError("LRCases consumed %s but %d cases were recorded" % (tot, len(cases)))
    chk.traces += tot["runs"]
    chk.nontrivial_count += tot["conflictFree"]
    chk.extra.setdefault("validated", {})[part] = tot
    for p in paths:
        os.remove(p)
    return tot


def _report(chk, family, r, by_id):
    ex = r["ex"]
    c = by_id.get(ex["id"], {})
    key = "%s:%s" % (family, ex["clause"])
    if ex["clause"] == "GeneratorRaises":
        key += ":" + str(ex["got"].get("exc", "")).split(":")[0]
    elif not ex.get("allprod", True) and ex["clause"] == "ErrorAtFirstNonViable":
        key += ":unproductive-nonterminal"
    g = c.get("g", {})
    gtxt = "; ".join("%s -> %s" % (p[0], " ".join(p[1]) or "<empty>") for p in g.get("prods", [])[:12])
    if len(g.get("prods", [])) > 12:
        gtxt = "(%d productions, start %s)" % (len(g["prods"]), g.get("start"))
    desc = "%s violated (%d input strings of this grammar) by the real lr1 generator/parser.  grammar[%s]: start %s; %s\n" \
           "input tokens: %s\nspec (TLC): %s   real code: %s" % (
               ex["clause"], r["count"], c.get("name") or ex["id"], g.get("start"), gtxt,
               " ".join(ex["w"]) if ex["w"] else "<empty string>", json.dumps(ex["want"], sort_keys=True),
               json.dumps(ex["got"], sort_keys=True))
    payload = {"clause": ex["clause"], "grammar": g, "w": ex["w"], "want": ex["want"], "got": ex["got"],
               "conflicts": c.get("conflicts"), "gen_exc": c.get("gen_exc"), "all_nonterminals_productive": ex.get("allprod")}
    if len(json.dumps(payload)) > 200000:
        payload["grammar"] = "(omitted: %d productions)" % len(g.get("prods", []))
    chk.violation(key, desc, payload)


def _negative_control(chk, sc, cat_cases):
    """The binding bites: three corrupted copies of a good recording must each be rejected by TLC."""
    import copy
    base = next(c for c in cat_cases if c["name"] == "balanced")
    bad = []
    c1 = copy.deepcopy(base)          # an error reported one token late
    r = next(r for r in c1["runs"] if not r["ok"] and r["idx"] < len(r["w"]))
    r["idx"] += 1
    r["tok"] = r["w"][r["idx"]] if r["idx"] < len(r["w"]) else "$"
    c1.update(id=9001, name="control-late-error", runs=[r])
    c2 = copy.deepcopy(base)          # a tree whose leaves are not the input in order
    r = next(r for r in c2["runs"] if r["ok"] and len(r["w"]) >= 2)
    def first_leaf(t):
        return t if "t" in t else next(first_leaf(c) for c in t["c"] if "t" in c or c["c"])
    first_leaf(r["tree"])["i"] = 1
    c2.update(id=9002, name="control-wrong-leaf", runs=[r])
    c3 = copy.deepcopy(base)          # a sentence recorded as rejected
    r = next(r for r in c3["runs"] if r["ok"])
    r.update(ok=False, tree=gc.NO_TREE, idx=len(r["w"]), tok="$", exp=[])
    c3.update(id=9003, name="control-rejects-sentence", runs=[r])
    p = sc.file("control.json")
    dump_json(p, [c1, c2, c3])
    res = tlc(sc, "LRCases", "control", invariants=["Checked"], env={"CASES_FILE": p}, workers=1, timeout=600)
    got = {(r["ex"]["id"], r["ex"]["clause"]) for r in res.printed_json() if isinstance(r, dict) and "ex" in r}
    need = {(9001, "ErrorAtFirstNonViable"), (9001, "DriverConforms"), (9002, "TreeIsDerivation"), (9002, "DriverConforms"),
            (9003, "AcceptIffDerives"), (9003, "DriverConforms")}
    if not need <= got:
        raise MachineryError("negative control: corrupted recordings were not rejected by LRCases: missing %s" % sorted(need - got))
    chk.extra["selftest_negative_control"] = ("3 corrupted copies of a recorded run (late error index, wrong leaf in tree, sentence "
                                              "recorded as rejected) are each rejected by TLC: " + ", ".join("%d:%s" % x for x in sorted(got)))


def _bound(tier, g):
    nt = len(gc.terminals_of(g))
    if nt <= 2:
        return tier["n2"]
    if nt == 3:
        return tier["n3"]
    return max(2, tier["n3"] - 1)


def run(chk, only=None):
    want = lambda part: only is None or part in only
    tier = TIERS[chk.tier]
    procs = min(tier["procs"], NCPU, int(os.environ.get("VERIF_PROCS") or 64))
    with Scratch("c08") as sc:
        cat_specs = gc.catalogue_specs(first_id=0)

        # ---- catalogue: build with the real generator -----------------------------------------
        cat_cases = None
        if want("machine-mc") or want("catalogue"):
            if chk.tier == "quick":
                for s in cat_specs:
                    nt = len(gc.terminals_of(s["g"]))
                    s["n"] = min(s["n"], 5 if nt <= 2 else 4 if nt == 3 else 3)
                    s["namb"] = min(s["namb"], s["n"])
            cat_cases = [gc.build_case(s) for s in cat_specs]

        if want("machine-mc"):
            mc_cases = []
            for s, c in zip(cat_specs, cat_cases):
                if s["mc"] and not c["gen_exc"]:
                    d = dict(c)
                    d["runs"] = []
                    mc_cases.append(d)
            p = sc.file("mc-cases.json")
            dump_json(p, mc_cases)
            res = tlc(sc, "LRCheck", "mc", invariants=MC_INVARIANTS, env={"CASES_FILE": p}, workers=max(4, procs // 2),
                      coverage=True, timeout=2400,
                      constants={"NCases": "<- NumCases", "TableOf": "<- CaseTable", "InputsOf": "<- CaseInputs",
                                 "FuelOf": "<- CaseFuel"})
            chk.add_tlc(res, part="machine-mc")
            if res.invariant_violated:
                from .grammar_tlc import trace_states
                st = trace_states(res.out)
                last = st[-1] if st else {}
                gi = int(last.get("gi", "1")) if last.get("gi", "1").isdigit() else 1
                c = mc_cases[gi - 1]
                chk.violation("machine-mc:%s" % res.invariant_violated[0],
                              "LRCheck invariant %s is violated on the tables the real generator built for catalogue grammar "
                              "'%s' (input %s)" % (res.invariant_violated[0], c["name"], last.get("input")),
                              {"invariant": res.invariant_violated, "grammar": c["g"], "conflicts": c["conflicts"],
                               "input": last.get("input"), "final_state": last})
            elif not res.clean:
                raise MachineryError("LRCheck did not complete:\n" + res.error_trace_tail())
            cov = res.coverage()
            chk.extra["machine_mc"] = {"grammars": len(mc_cases), "conflict_free": sum(1 for c in mc_cases if not c["conflicts"]),
                                       "actions": {k: v[1] for k, v in cov.items() if k in ("Shift", "Reduce", "Accept", "Error", "Start", "Init")}}
            chk.evaluations += res.distinct

        if want("gen-mc"):
            g = {"start": "E", "prods": [["E", ["E", "+", "T"]], ["E", ["T"]], ["T", ["x"]], ["T", ["(", "E", ")"]], ["T", []]]}
            p = sc.file("genmc-grammar.json")
            dump_json(p, g)
            res = tlc(sc, "SentenceGen", "mc", invariants=GEN_INVARIANTS, workers=4, coverage=True, timeout=1200,
                      env={"GRAMMAR_FILE": p, "MAX_TOKENS": 4, "TARGET_TOKENS": 3, "MAX_MUTANTS": 1, "BIAS": 2, "FAST_MUTATE": "0"})
            chk.add_tlc(res, part="sentencegen-mc")
            if not res.clean:
                raise MachineryError("SentenceGen design-level check failed (%s):\n%s" % (res.invariant_violated, res.error_trace_tail()))

        if want("catalogue"):
            _negative_control(chk, sc, cat_cases)
            _validate(chk, sc, "cat", cat_cases, "small-grammar", min(procs, 6), "catalogue")
            chk.extra["catalogue"] = [{"name": c["name"], "states": len(c["tables"]["states"]), "conflicts": len(c["conflicts"]),
                                       "strings": len(c["runs"]), "accepted": sum(1 for r in c["runs"] if r["ok"]),
                                       "generator_exception": c["gen_exc"]} for c in cat_cases]

        # ---- small grammars chosen by TLC ------------------------------------------------------
        if want("small"):
            grammars = []
            nts, ts, mr, mp = tier["exh"]
            gs, res = grammar_gen.small_grammars(sc, "exh", nts=nts, ts=ts, max_rhs=mr, max_prods=mp)
            chk.add_tlc(res, part="grammargen-exhaustive")
            if not res.clean:
                raise MachineryError("GrammarGen (exhaustive) failed:\n" + res.error_trace_tail())
            n_exh = len(gs)
            grammars += gs
            for k, (nts, ts, mr, mp, traces) in enumerate(tier["samples"]):
                gs, res = grammar_gen.small_grammars(sc, "sim%d" % k, nts=nts, ts=ts, max_rhs=mr, max_prods=mp, min_prods=mp,
                                                     simulate=traces, seed=chk.seed * 7 + k + 1)
                chk.add_tlc(res, part="grammargen-sample")
                grammars += gs
            # structured family: concatenations of list / option / wrapper idioms (IdiomGen.tla), exhaustive
            n_idiom = 0
            for k, (mp, same) in enumerate(tier.get("idioms", [])):
                gs, res = grammar_gen.idiom_grammars(sc, "idiom%d" % k, max_parts=mp, same_terminals=same)
                chk.add_tlc(res, part="idiomgen-exhaustive")
                if not res.clean:
                    raise MachineryError("IdiomGen failed:\n" + res.error_trace_tail())
                n_idiom += len(gs)
                grammars += [{"start": g["start"], "prods": g["prods"]} for g in gs]
            seen, specs = set(), []
            for g in grammars:
                key = json.dumps(g, sort_keys=True)
                if key in seen:
                    continue
                seen.add(key)
                specs.append({"id": 1000 + len(specs), "name": "", "g": g, "n": _bound(tier, g), "namb": _bound(tier, g), "expect": ""})
            # batches keep the recorded runs of ~1e5 strings in memory at a time
            tot = {"cases": 0, "conflictFree": 0, "runs": 0, "accepted": 0, "mismatches": 0}
            n_exc = 0
            B = 1500
            for b in range(0, len(specs), B):
                cases = gc.build_cases(specs[b:b + B], nproc=procs)
                n_exc += sum(1 for c in cases if c["gen_exc"])
                t = _validate(chk, sc, "small%d" % b, cases, "small-grammar", procs, "small-grammars")
                for k in tot:
                    tot[k] += t[k]
                if b == 0:
                    for c in cases[:400:97]:
                        chk.sample({"grammar": "; ".join("%s -> %s" % (p[0], " ".join(p[1]) or "<empty>") for p in c["g"]["prods"]),
                                    "conflicts": len(c["conflicts"]), "strings": len(c["runs"]),
                                    "accepted": sum(1 for r in c["runs"] if r["ok"])})
                del cases
            chk.extra["validated"]["small-grammars"] = tot
            chk.extra["small_grammars"] = {
                "exhaustive_family": {"nonterminals": tier["exh"][0], "terminals": tier["exh"][1], "max_rhs": tier["exh"][2],
                                      "max_productions": tier["exh"][3], "grammars": n_exh},
                "sampled_families": [list(s) for s in tier["samples"]], "idiom_grammars": n_idiom, "distinct_grammars": len(specs),
                "conflict_free": tot["conflictFree"], "with_conflicts_or_refused": tot["cases"] - tot["conflictFree"],
                "strings_parsed": tot["runs"], "accepted": tot["accepted"],
                "generator_exceptions": n_exc}
            if tot["conflictFree"] == 0:
                raise MachineryError("no conflict-free grammar among the generated ones: the language clauses were never exercised")

        # ---- the real Emboss grammar ------------------------------------------------------------
        if want("emboss"):
            _emboss(chk, sc, tier, procs)

        chk.exhaustive = False
        chk.rule = ("grammars: every set of <= %d productions over %s/%s with |rhs| <= %d (TLC-enumerated), seeded TLC samples of larger "
                    "families, a catalogue of textbook shapes, and the Emboss grammar; inputs: ALL strings up to the length bound for "
                    "small grammars, TLC-derived sentences and single-token mutants for Emboss; a case is non-trivial when the generator "
                    "reports no conflicts (then every string is checked against the Earley recognizer, derivation-tree and "
                    "first-non-viable-token clauses)" % (tier["exh"][3], tier["exh"][0], tier["exh"][1], tier["exh"][2]))
        chk.assumptions += [
            "ambiguity (two derivation trees of one sentence) is searched among the same strings",
            "strings up to length %d (2 terminals) / %d (3 terminals) for generated grammars" % (tier["n2"], tier["n3"]),
            "Parser.parse is given tokens that carry only a symbol (no source locations)",
            "a parse is cut after 500 moves (small grammars) / 40000 moves (Emboss) and then counts as divergent",
        ]


def _emboss(chk, sc, tier, procs):
    from compiler.front_end import lr1, module_ir
    from compiler.util import parser_types
    from . import grammar_tables as gt
    g = grammar_gen.emboss_grammar()
    gen = grammar_gen.generate(chk.seed, tier["emboss"], tier["emboss_tokens"], scratch=sc, mutants=2, procs=min(tier["gen_procs"], procs),
                               add_tlc=lambda r: chk.add_tlc(r, part="sentencegen"))
    strings = [c["w"] for c in gen]
    # the parser the REAL generator builds for the real productions (no error examples: C08 is about lr1.Grammar)
    prods = [parser_types.Production(p[0], tuple(p[1])) for p in g["prods"]]
    parser = lr1.Grammar(g["start"], prods).parser()
    tables = gt.export_parser(parser)
    conflicts = gt.export_conflicts(parser)
    parser.action = gc._CountingDict(parser.action, 40000)
    runs = []
    used = set()
    for w in strings:
        r = gc.parse_outcome(parser, w)
        r["w"] = w
        runs.append(r)
    nsh = max(1, min(procs, len(runs) // 8))
    cases = []
    for k in range(nsh):
        cases.append({"id": 500000 + k, "name": "emboss module grammar", "g": g, "n": 0, "namb": -1, "expect": "conflict-free",
                      "fuel": 40000, "terms": [], "gen_exc": "", "cert": True, "tables": tables, "conflicts": conflicts, "runs": runs[k::nsh]})
    tot = _validate(chk, sc, "emboss", cases, "emboss-grammar", nsh, "emboss-grammar", heap="4g")

    def prods_in(t, acc):
        if "p" in t:
            acc.add(json.dumps(t["p"]))
            for c in t["c"]:
                prods_in(c, acc)
    for r in runs:
        if r["ok"]:
            prods_in(r["tree"], used)
    chk.extra["emboss_grammar"] = {
        "productions": len(g["prods"]), "lr1_states": len(tables["states"]), "conflicts": len(conflicts),
        "sentences": sum(1 for c in gen if c["kind"] == "sentence"), "mutants": sum(1 for c in gen if c["kind"] == "mutant"),
        "accepted": tot["accepted"], "rejected": tot["runs"] - tot["accepted"],
        "mutants_still_accepted": sum(1 for c, r in zip(gen, runs) if c["kind"] == "mutant" and r["ok"]),
        "productions_used_in_accepted_parse_trees": len(used),
        "max_tokens": tier["emboss_tokens"], "longest": max(len(w) for w in strings)}
    for c, r in list(zip(gen, runs))[:3]:
        chk.sample({"kind": c["kind"], "tokens": " ".join(c["w"])[:300], "accepted": r["ok"], "error_index": r["idx"]})


def replay(chk, path):
    """Re-run one recorded violation: same grammar, same token string, through the real code and LRCases."""
    with open(path) as f:
        rp = json.load(f)
    case = rp.get("case") or {}
    g, w = case.get("grammar"), case.get("w")
    if not isinstance(g, dict) or w is None:
        if str(rp.get("key", "")).startswith("emboss-grammar") and w is not None:
            g = grammar_gen.emboss_grammar()
        else:
            return run(chk)
    big = len(g["prods"]) > 50
    spec = {"id": 1, "name": "replay", "g": g, "n": len(w), "namb": -1 if big else len(w), "expect": "", "strings": [w],
            "fuel": 40000 if big else 500}
    with Scratch("c08-replay") as sc:
        c = gc.build_case(spec)
        c["cert"] = big
        _validate(chk, sc, "replay", [c], "emboss-grammar" if big else "small-grammar", 1, "replay")
