"""C12: compile rendered scope programs with the REAL front end and record names.

Records, per program:
  exc      exception type (and innermost function) if the front end raised, else ""
  errors   error groups of the run stopped before annotate_types (only desugaring, symbol
           resolution, dependency passes and field-reference resolution have run), each as
           {"at": definition index of the primary message's position, "notes": [indices]}
  late     the same for a complete run, made only when the early run reports nothing
  defs     every NameDefinition of the IR: canonical name, its source position, and the position
           of the name of what ir_util.find_object returns for that canonical name
  refs     every resolved Reference: the definition it is written in, the path as written, and the
           canonical name(s) it was bound to (one per element for field paths)
Anonymous-bits names are normalised (EmbossReservedAnonymous<N> -> %anon); nothing is compared here.
"""
import re
import signal

from . import scope_render as R

STOP = "annotate_types"
WATCHDOG_S = 90
_emb = None
_ANON_T = re.compile(r"^EmbossReservedAnonymous(Field)?\d+$")
_ANON_F = re.compile(r"^emboss_reserved_anonymous_field_\d+$")


class _Hang(Exception):
    pass


def _alarm(signum, frame):
    raise _Hang()


def _init():
    global _emb
    from . import emb
    _emb = emb
    emb._mods()
    signal.signal(signal.SIGALRM, _alarm)


def _norm(parts):
    return ["%anon" if _ANON_T.match(p) else p for p in parts]


def _canon(cn):
    return [cn.module_file] + _norm(list(cn.object_path))


def _pos(loc):
    if loc is None or loc.start is None:
        return [0, 0]
    return [loc.start.line, loc.start.column]


def _compile(files, main, stop):
    import traceback
    out = {"exc": "", "errors": None, "ir": None}
    signal.setitimer(signal.ITIMER_REAL, WATCHDOG_S)
    try:
        ir, _, errs = _emb.front_end(files, main, stop_before_step=stop)
        out["ir"], out["errors"] = ir, _emb.flat_errors(errs)
    except _Hang:
        out["exc"] = "hang"
    except BaseException as e:  # noqa
        tb = traceback.extract_tb(e.__traceback__)
        out["exc"] = type(e).__name__ + (" in " + tb[-1].name if tb else "")
    finally:
        signal.setitimer(signal.ITIMER_REAL, 0)
    return out


def _groups(errors, regions):
    res = []
    for g in errors:
        ats = [R.locate(regions, m["file"], m["l1"], m["c1"]) for m in g]
        res.append({"at": ats[0], "notes": ats[1:], "line": g[0]["l1"] or 0})
    return res


def _walk_refs(node, at, out, ir_data, seen):
    """Collect Reference / FieldReference below node (a dataclass IR node)."""
    from compiler.util import ir_data_utils
    if isinstance(node, ir_data.FieldReference):
        path = [r.source_name[0].text for r in node.path if r.source_name]
        cans = [_canon(r.canonical_name) for r in node.path if r.has_field("canonical_name")]
        if path and len(cans) == len(node.path) and not node.path[0].source_location.is_synthetic:
            out.append({"at": at, "form": "field", "path": path, "canons": cans})
        return
    if isinstance(node, ir_data.Reference):
        if node.source_name and node.has_field("canonical_name"):
            loc = node.source_location
            if not (loc is not None and loc.is_synthetic):
                out.append({"at": at, "form": "static", "path": [w.text for w in node.source_name],
                            "canons": [_canon(node.canonical_name)]})
        return
    if not isinstance(node, ir_data.Message):
        return
    for spec, value in ir_data_utils.get_set_fields(node):
        if not spec.is_dataclass:
            continue
        if spec.is_sequence:
            for v in value:
                _walk_refs(v, at, out, ir_data, seen)
        else:
            _walk_refs(value, at, out, ir_data, seen)


def _harvest(ir, regions):
    from compiler.util import ir_data, ir_util
    defs, refs = [], []

    def name_def(nd, fname):
        if not nd.has_field("canonical_name"):
            return None
        parts = list(nd.canonical_name.object_path)
        last = parts[-1] if parts else ""
        if last.startswith("$") or _ANON_F.match(last):
            return None
        found = ir_util.find_object_or_none(nd.canonical_name, ir)
        fpos = [0, 0]
        if found is not None and hasattr(found, "name") and found.name is not None:
            fpos = _pos(found.name.name.source_location) if found.name.name is not None else [0, 0]
        pos = _pos(nd.name.source_location)
        at = R.locate(regions, fname, pos[0], pos[1])
        defs.append({"canon": _canon(nd.canonical_name), "pos": pos, "found": fpos, "at": at})
        return at

    def do_type(t, fname):
        at_t = name_def(t.name, fname)
        for p in t.runtime_parameter:
            at_p = name_def(p.name, fname)
            if at_p and p.has_field("physical_type_alias"):
                _walk_refs(p.physical_type_alias, at_p, refs, ir_data, None)
        if t.has_field("attribute"):
            for a in t.attribute:
                if at_t:
                    _walk_refs(a, at_t, refs, ir_data, None)
        if t.has_field("enumeration"):
            for v in t.enumeration.value:
                at = name_def(v.name, fname)
                if at:
                    _walk_refs(v.value, at, refs, ir_data, None)
        if t.has_field("structure"):
            for f in t.structure.field:
                at = name_def(f.name, fname)
                if at:
                    for part in ("location", "existence_condition", "read_transform", "type"):
                        if f.has_field(part):
                            _walk_refs(getattr(f, part), at, refs, ir_data, None)
                    for a in f.attribute:
                        _walk_refs(a, at, refs, ir_data, None)
        for s in t.subtype:
            do_type(s, fname)

    for m in ir.module:
        for t in m.type:
            do_type(t, m.source_file_name)
    return defs, refs


def run_program(prog):
    files, regions = R.render(prog)
    main = "m.emb"
    obs = {"exc": "", "errors": [], "late": [], "late_run": False, "late_exc": "", "defs": [], "refs": []}
    res = _compile(files, main, STOP)
    if res["exc"]:
        obs["exc"] = res["exc"]
        return {"id": prog["id"], "obs": obs, "files": files}
    if res["errors"]:
        obs["errors"] = _groups(res["errors"], regions)
        return {"id": prog["id"], "obs": obs, "files": files}
    try:
        obs["defs"], obs["refs"] = _harvest(res["ir"], regions)
    except BaseException as e:  # noqa
        import traceback
        tb = traceback.extract_tb(e.__traceback__)
        obs["exc"] = "harvest " + type(e).__name__ + (" in " + tb[-1].name if tb else "")
        return {"id": prog["id"], "obs": obs, "files": files}
    res2 = _compile(files, main, None)
    obs["late_run"] = True
    if res2["exc"]:
        obs["late_exc"] = res2["exc"]      # a crash of a later pass: not a question of name resolution
    elif res2["errors"]:
        obs["late"] = _groups(res2["errors"], regions)
    return {"id": prog["id"], "obs": obs, "files": files}


def run_batch(progs):
    return [run_program(p) for p in progs]
