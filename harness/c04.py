"""C04 - checked view operations never leave the buffer or hit undefined behaviour.

TLA+ cannot observe an out-of-bounds read or a signed overflow.  What the specification contributes:
  * which operations the checked API permits in which state (View.tla: Read only when Ok, Equals only on
    two Ok views, text output only when Ok ...), so that the drivers issue exactly the permitted calls and a
    legitimate EMBOSS_CHECK on a forbidden call is never mistaken for a defect;
  * the quantifier: every buffer over the per-program alphabet up to MaxSize+2 (empty, truncated, oversized,
    0xff-filled), and TLC-generated behaviours (writes at range edges, copies between overlapping windows,
    equality queries, text round trips) on the catalogue and on ProgGen programs;
  * the footprint theorem (ViewMC!WriteSound: a permitted write stays inside the buffer).
The decisive observation comes from the sanitizers: the same drivers as C01/C03/C06/C20 are built with
clang++ -fsanitize=address,undefined -fno-sanitize-recover=all, every buffer is an exact-size heap
allocation, and an ASan/UBSan report, an assert/EMBOSS_CHECK abort or a signal ends the recorded trace -- an
event the trace specification has no action for.  The recorded traces are ALSO validated by TLC (ViewTrace),
so the observations of the sanitizer build are held to the reference semantics as well.
"""
from . import c01, view_beh, view_catalog, view_run
from .common import Scratch, run_parallel, NCPU

LEVEL = "exploration"


def _wide(chk, quick):
    """64-bit arithmetic under UBSan: accepted BoundsGen wide-family modules (UInt/Int:31..64 leaves, landmark constants
    around 2^31, 2^32, 2^63, 2^64), the virtual field read through the checked API at landmark environments."""
    import re
    from . import c05, bounds_pool, bounds_cpp
    ncase = 600 if quick else 6000
    procs = 4 if quick else 12
    n = 0
    with Scratch("c04w") as sc:
        jobs = [(lambda k=k: c05._gen(sc, "wide%d" % k, dict(Family='"wide"', Exhaustive="FALSE", MaxDepth=3, MaxMag=0, NVars=3, FullConsts="FALSE"),
                                      -(-ncase // procs), chk.seed * 1000 + 700 + k)) for k in range(procs)]
        cases, defs, seen = [], None, set()
        for name, res, d, cs in run_parallel(jobs, nproc=procs):
            chk.add_tlc(res, part="BoundsGen-wide")
            defs = defs or d
            for c in cs:
                key = repr((c["vars"], c["e"]))
                if key not in seen:
                    seen.add(key)
                    c["id"] = len(cases)
                    cases.append(c)
        recs = bounds_pool.compile_cases(cases, defs, nproc=max(2, NCPU // 2))
        acc = [r for r in recs if r["status"] == "accepted" and r["pos"] == "let"]
        by_id = {r["id"]: r for r in acc}
        wcases, wfail = bounds_cpp.evaluate(sc, acc, defs, n_env=8 if quick else 17, per_tu=25, nproc=max(2, NCPU // 2), san=True)
        for status, detail, ids in wfail:
            m = re.search(r"runtime error: ([^\n]{0,80})|ERROR: AddressSanitizer: (\S+)", str(detail))
            what = (m.group(1) or m.group(2)) if m else status.lower()
            what = re.sub(r"-?\d+", "N", what)
            chk.violation("wide:%s:%s" % (status.lower(), what), "sanitizer build of the driver over accepted wide-family modules %s: %s\n%s" % (
                ids[:5], status, str(detail)[-2500:]), {"ids": ids, "emb": [by_id[i]["emb"] for i in ids[:3] if i in by_id]})
        n = sum(len(c["envs"]) for c in wcases)
        chk.extra["wide_family_under_sanitizers"] = {"generated": len(cases), "accepted_and_driven": len(wcases), "reads": n}
        chk.nontrivial_count += len(wcases)
    return n


def run(chk, only=None):
    quick = chk.tier == "quick"
    progs = view_catalog.catalog()
    total = 0
    if not only or "enum" in only:
        with Scratch("c04e") as sc:
            gen, gres = view_run.generated_programs(sc, 5 if quick else 150, chk.seed + 4, 5 if quick else 6, 2, name="c04")
            chk.add_tlc(gres, part="ProgGen")
            chk.extra["generated_programs"] = len(gen)
            allp = progs + gen
            budget = 350 if quick else 6000
            for n in run_parallel([(lambda p=p: c01.check_program(chk, sc, p, chk.tier, budget, san=True)) for p in allp],
                                  nproc=max(2, NCPU // 4)):
                total += n
        chk.extra["enumerated_buffers_under_sanitizers"] = total
    nwide = 0
    if not only or "wide" in only:
        nwide = _wide(chk, quick)
    ntr = nev = 0
    for mode, actions in (("single", ["wr", "tx"]), ("pair", ["cp", "eq", "wr"]), ("trunc", ["wr"])):
        if only and mode not in only:
            continue
        nbeh = (10 if quick else 200) if mode != "trunc" else (20 if quick else 400)
        t, e = view_beh.run_behaviours(chk, mode, actions, nbeh=nbeh, depth=(6 if quick else 10) if mode != "trunc" else 3, progs=progs, san=True)
        ntr += t
        nev += e
    chk.traces = total + ntr + nwide
    chk.evaluations = total + nev + nwide
    chk.nontrivial_count = total + chk.nontrivial_count
    chk.rule = ("one evaluation = one checked-API call sequence on one exact-size heap buffer under ASan+UBSan: (a) every byte string over "
                "the per-program alphabet (program constants, 0, 1, 2, 3, 9, 0x80, 0x9a, 0xff) up to MaxSizeInBytes+2 with the whole "
                "observation vector (Ok, IsComplete, SizeIsKnown, has_x, x().Ok, Read once Ok, element access); (b) TLC-generated "
                "behaviours: CouldWriteValue/TryToWrite at range edges, TryToCopyFrom both ways incl. overlapping windows, Equals once both "
                "Ok, WriteToString/UpdateFromText; all are distinct by construction; non-trivial = the buffer/behaviour was run")
    chk.assumptions += [
        "clang-14 ASan/UBSan semantics; reads inside the allocation but outside the view's own sub-range are not visible",
        "the driver issues only calls the checked API permits in the state (decided by View.tla: Read when Ok, Equals when both Ok)",
        "field widths <= 24 bits in the catalogue/ProgGen programs; 64-bit arithmetic edges come from the BoundsGen wide family (part wide): "
        "Ok()/Read() of the virtual field at landmark environments (type minima/maxima, 2^31, 2^32, 2^63 neighbours), values not judged here (C05 does)",
    ]
