"""Hand-written feature matrix: every language feature of C01's statement at least once."""
from .view_prog import Program, Op, R, I, Par, Pres, En, THIS, E


def catalog():
    ps = []

    # P1: tag-dispatched conditionals (>=3 siblings on tag == CONST -> switch optimisation), dynamic array, virtuals, alias
    p = Program("Basic")
    s = p.struct("Foo")
    s.scalar("tag", 0, 1)
    s.scalar("len", 1, 1, abbr="n")
    s.scalar("a", 2, 2, cond=Op("==", "tag", 1))
    s.array("payload", 2, R("len"), ("UInt",), 1, cond=Op("==", "tag", 2), auto=True)
    s.scalar("c", 2, 1, st="Int", cond=Op("==", "tag", 3))
    s.scalar("c2", 3, 1, st="Bcd", cond=Op("==", "tag", 3))
    s.virt("twice", Op("*", "len", 2))
    s.alias("al", "a")
    ps.append(p)

    # P2: anonymous bits, $next, Int/Flag in bits, big-endian override
    p = Program("Bitsy")
    s = p.struct("Reg")
    s.scalar("x", 0, 2, order="BE")
    s.anon_bits("$next", 1, lambda b: (b.scalar("lo", 0, 3), b.scalar("hi", 3, 4, st="Int"), b.scalar("fl", 7, 1, st="Flag")))
    s.scalar("y", "$next", 1, st="Int")
    s.virt("sum", Op("+", "lo", "hi"))
    s.virt("big", Op(">", "x", 258), vt="bool")
    ps.append(p)

    # P3: dynamic offset, nested struct with parameter, [requires] on field and virtual
    p = Program("Dyn")
    inner = p.struct("Inner", params=[("k", False, 4)])
    inner.scalar("v", 0, 1, requires=Op("<", THIS, 200))
    inner.scalar("w", 1, 1, cond=Op("==", Par(1, "k"), 2))
    inner.virt("vk", Op("+", "v", Par(1, "k")))
    s = p.struct("Outer")
    s.scalar("off", 0, 1)
    s.scalar("kk", 1, 1, requires=Op("<", THIS, 16))
    s.sub("in_", Op("+", "off", 2), 2, "Inner", args=[R("kk")])
    s.virt("iv", R("in_", "v"))
    s.virt("lim", Op("-", "off", 3), requires=Op(">=", THIS, -2))
    # $present of a nested path: the outer field is unconditional, the member is conditional
    s.virt("pw", Op("?:", Pres("in_", "w"), 200, "off"))
    # ... and the outer field conditional: "present in ITS structure" is the member's own condition, evaluated in the
    # (possibly absent) sub-view - an unconditional member of an absent structure still counts as present in it
    s.sub("opt", 5, 2, "Inner", args=[R("kk")], cond=Op("==", "off", 1))
    s.virt("po", Op("?:", Pres("opt", "w"), 1, 2))
    s.virt("pv", Op("?:", Pres("opt", "v"), 1, 2))
    ps.append(p)

    # P4: enum fields and parameters, ?: and $max, $present
    p = Program("Enumy")
    p.enum("Kind", [("AA", 0), ("BB", 1), ("CC", 5)])
    s = p.struct("Msg", params=[("ver", False, 3)])
    s.scalar("kind", 0, 1, enum="Kind")
    s.scalar("p", 1, 1, cond=Op("&&", Op("==", "kind", En("Kind", "BB", 1)), Op(">", Par(1, "ver"), 1)))
    s.scalar("q", 1, 2, cond=Op("||", Op("==", "kind", En("Kind", "CC", 5)), Op("==", Par(1, "ver"), 0)))
    s.scalar("r", 3, 1, cond=Pres("p"))
    s.virt("m", Op("max", "kind_raw", 2, Par(1, "ver")))
    s.virt("ch", Op("?:", Pres("q"), "q", 7))
    s.alias("kind_raw", "kraw")
    s.scalar("kraw", 0, 1)
    ps.append(p)

    # P5: arrays of structs, fixed arrays, struct-level requires, named bits type, inline bits
    p = Program("Arr")
    b = p.bits("Nib")
    b.scalar("lo", 0, 4, st="Bcd")
    b.scalar("hi", 4, 4)
    e = p.struct("El")
    e.scalar("a", 0, 1)
    e.sub("nb", 1, 1, "Nib")
    s = p.struct("Top", requires=Op("<=", "n", 3))
    s.scalar("n", 0, 1)
    s.array("els", 1, Op("*", "n", 2), ("sub", "El"), 2, auto=True)
    s.array("fixed", Op("+", Op("*", "n", 2), 1), 4, ("Int", "BE"), 2)
    ps.append(p)

    # P5b: bits nested in bits and arrays inside bits, both at non-zero bit offsets (sub-blocks of an offset bit block)
    p = Program("Nested")
    b = p.bits("In8")
    b.scalar("x", 0, 3)
    b.scalar("y", 3, 5, st="Int")
    o = p.bits("Out24")         # (containers stay <= 24 bits: TLC's integers are 32-bit)
    o.scalar("a", 0, 5)
    o.sub("inner", 8, 8, "In8")
    o.array("nib", 16, 8, ("UInt",), 4)
    q = p.bits("Out16")
    q.sub("deep", 3, 8, "In8")
    q.scalar("fl", 15, 1, st="Flag")
    s = p.struct("Hold")
    s.scalar("pre", 0, 1)
    s.sub("w", 1, 3, "Out24", order="BE")
    s.sub("h", 4, 2, "Out16")
    s.virt("vy", Op("+", R("w", "inner", "y"), R("h", "deep", "x")))
    ps.append(p)

    # P5c: virtual fields that refer to fields declared LATER (write-through inference must follow the reference, not the
    # declaration order): adj is not writable because tot is read-only; fwd is writable through raw
    p = Program("Fwd")
    s = p.struct("Fw")
    s.virt("adj", Op("+", "tot", 10))
    s.transform("fwd", "y+c", "raw", 3)
    s.virt("tot", Op("+", "a", "b"))
    s.scalar("a", 0, 1)
    s.scalar("b", 1, 1)
    s.scalar("raw", 2, 1)
    ps.append(p)

    # P6: simple transforms (y+c, c+y, y-c, c-y), [requires] on stored and on virtual fields, wide-ish bit fields
    p = Program("Xform")
    s = p.struct("Xf")
    s.scalar("raw", 0, 1, st="Int")
    s.scalar("u", 1, 1, requires=Op(">=", THIS, 2))
    s.transform("y1", "y+c", "raw", 100)
    s.transform("y2", "y+c", "u", 5, flip=True)
    s.transform("y3", "y-c", "raw", 3)
    s.transform("y4", "c-y", "u", 40, requires=Op(">", THIS, 0))
    # nested additions / subtractions around one field (the inverse has to be composed in the right order)
    s.transform_expr("q1", Op("+", Op("-", "raw", 50), 30), "raw", (-148, 107))
    s.transform_expr("q2", Op("-", 100, Op("-", "u", 5)), "u", (-150, 105))
    s.transform_expr("q3", Op("+", Op("-", Op("+", "raw", 1), 2), 4), "raw", (-125, 130))
    s.anon_bits(2, 2, lambda b: (b.scalar("n0", 0, 4), b.scalar("n1", 4, 8, st="Int"), b.scalar("n2", 12, 4, st="Bcd")), order="BE")
    s.transform("z", "y+c", "n1", 1)
    s.scalar("tail", 4, 3, order="BE")
    ps.append(p)

    # P8: text output attributes, dependency order differing from source order, enum names, arrays, nested struct
    p = Program("Texty")
    p.enum("Kind", [("AA", 0), ("BB_LONG", 1), ("CC", 200)], case="kCamelCase")
    inn = p.struct("TIn")
    inn.scalar("v", 0, 1)
    inn.scalar("sg", 1, 1, st="Int")
    s = p.struct("Tx")
    s.scalar("late", R("n"), 1)
    s.scalar("n", 0, 1, requires=Op("&&", Op(">=", THIS, 1), Op("<=", THIS, 3)))
    s.scalar("kind", 4, 1, enum="Kind")
    s.scalar("a", 5, 2, cond=Op("==", "n", 3), order="BE")
    s.virt("twice", Op("*", "n", 2))
    s.alias("al", "kind")
    s.anon_bits(7, 1, lambda b: (b.scalar("lo", 0, 3, text_output="Skip"), b.scalar("hi", 3, 4, st="Int"), b.scalar("fl", 7, 1, st="Flag", text_output="Emit")))
    s.array("arr", 8, 2, ("UInt",), 1)
    s.sub("inn", 10, 2, "TIn")
    s.scalar("sk", 12, 1, text_output="Skip")
    s.scalar("em", 13, 1, text_output="Emit")
    s.scalar("big", 14, 3)
    ps.append(p)

    # P7: gaps (bytes no field covers), overlapping fields (union), conditional tail, fixed padding
    p = Program("Gaps")
    s = p.struct("Gp")
    s.scalar("a", 0, 1)
    s.scalar("b", 2, 1)                      # byte 1 is uncovered
    s.scalar("ab", 0, 2, order="LE")         # overlaps a
    s.scalar("opt", 4, 2, cond=Op(">", "a", 1), order="BE")   # byte 3 uncovered
    ps.append(p)

    # P9: scoped byte-order defaults: a struct-level $default between two structs that rely on the module default
    p = Program("Defaults")
    s = p.struct("First")
    s.scalar("a", 0, 2)
    s.scalar("b", 2, 3, st="Int")
    s = p.struct("Mid", default_order="BE")
    s.scalar("a", 0, 2)
    s.scalar("b", 2, 3, st="Int")
    s.scalar("c", 5, 2, order="LE")
    s = p.struct("Last")
    s.scalar("a", 0, 2)
    s.scalar("b", 2, 3, st="Int")
    s.sub("m", 5, 7, "Mid")
    s.anon_bits(12, 2, lambda b: (b.scalar("lo", 0, 9), b.scalar("hi", 9, 7, st="Int")))
    ps.append(p)

    # P10: no byte order anywhere (one-byte fields only: the Null byte order)
    p = Program("Nullbo", default_order=None)
    s = p.struct("Nb")
    s.scalar("tag", 0, 1)
    s.scalar("x", 1, 1, st="Int", cond=Op("==", "tag", 1))
    s.scalar("y", 2, 1, st="Bcd")
    s.array("arr", 3, 2, ("UInt",), 1)
    s.anon_bits(5, 1, lambda b: (b.scalar("lo", 0, 3), b.scalar("fl", 7, 1, st="Flag")))
    s.virt("t2", Op("+", "tag", "y"))
    ps.append(p)

    # P11: a byte array longer than one line of the shorthand ASCII comment of the text format (64 characters)
    p = Program("Blob")
    s = p.struct("Bl")
    s.scalar("n", 0, 1)
    s.array("data", 1, 70, ("UInt",), 1)
    s.scalar("tail", 71, 1, st="Int")
    ps.append(p)
    import os
    only = [x for x in os.environ.get("VERIF_PROGS", "").split(",") if x]      # development aid: a subset of the catalogue
    if only:
        ps = [q for q in ps if q.name in only]
    return ps
