"""C06 part (a): the real integer text codec (runtime/cpp/emboss_text_util.h) against spec/text/Text.tla."""
import json
import os
import random

from . import cpp
from .common import MachineryError, run_tlc, write_cfg, run_parallel, chunks

TYPES = [("i8", 1, 8, "::std::int8_t"), ("u8", 0, 8, "::std::uint8_t"), ("i16", 1, 16, "::std::int16_t"), ("u16", 0, 16, "::std::uint16_t"),
         ("i32", 1, 32, "::std::int32_t"), ("u32", 0, 32, "::std::uint32_t"), ("i64", 1, 64, "::std::int64_t"), ("u64", 0, 64, "::std::uint64_t")]

DRIVER = r'''
#include <cstdint>
#include <cstdio>
#include <cstdlib>
#include <string>
#include "runtime/cpp/emboss_text_util.h"
static void pchars(const std::string &s) { std::printf("["); for (size_t i = 0; i < s.size(); ++i) std::printf("%s%d", i ? "," : "", (int)(unsigned char)s[i]); std::printf("]"); }
// value as {"neg":b,"l":[base-10000 limbs, little endian]}
template <class T> static void pbig(T v) {
  bool neg = v < 0; unsigned long long m = neg ? (0ULL - static_cast<unsigned long long>(v)) : static_cast<unsigned long long>(v);
  std::printf("{\"neg\":%s,\"l\":[", neg ? "true" : "false"); bool first = true;
  while (m) { std::printf("%s%llu", first ? "" : ",", m % 10000ULL); first = false; m /= 10000ULL; }
  std::printf("]}");
}
template <class T> static void enc(const char *ty, int is_signed, int bits, T v, int base, int group) {
  ::emboss::support::TextOutputStream s;
  ::emboss::support::WriteIntegerToTextStream(v, &s, static_cast<std::uint8_t>(base), group != 0);
  std::string out = s.Result(); T back = 0; bool ok = ::emboss::support::DecodeInteger(out, &back);
  std::printf("{\"k\":\"enc\",\"ty\":\"%s\",\"signed\":%d,\"bits\":%d,\"base\":%d,\"group\":%d,\"x\":", ty, is_signed, bits, base, group);
  pbig(v); std::printf(",\"out\":"); pchars(out); std::printf(",\"dec_ok\":%d,\"dec\":", ok ? 1 : 0); pbig(ok ? back : T(0)); std::printf("}\n");
}
template <class T> static void dec(const char *ty, int is_signed, int bits, const std::string &in) {
  T v = 0; bool ok = ::emboss::support::DecodeInteger(in, &v);
  std::printf("{\"k\":\"dec\",\"ty\":\"%s\",\"signed\":%d,\"bits\":%d,\"in\":", ty, is_signed, bits); pchars(in);
  std::printf(",\"ok\":%d,\"val\":", ok ? 1 : 0); pbig(ok ? v : T(0)); std::printf("}\n");
}
int main() {
CALLS
  return 0;
}
'''


def values_for(signed, bits, rng, n_random):
    lo, hi = (-(1 << (bits - 1)), (1 << (bits - 1)) - 1) if signed else (0, (1 << bits) - 1)
    vals = {lo, lo + 1, hi, hi - 1, 0, 1, 9, 10, 15, 16, 99, 100, 999, 1000, 1001, 9999, 10000, 65535, 65536, 4095, 4096, 255, 256}
    for k in range(1, 20):
        vals.add(10 ** k)
        vals.add(10 ** k - 1)
    for k in range(1, 64):
        vals.add((1 << k))
        vals.add((1 << k) - 1)
    if signed:
        vals |= {-v for v in list(vals)}
    for _ in range(n_random):
        vals.add(rng.randint(lo, hi))
    return sorted(v for v in vals if lo <= v <= hi)


def malformed_for(signed, bits, rng):
    lo, hi = (-(1 << (bits - 1)), (1 << (bits - 1)) - 1) if signed else (0, (1 << bits) - 1)
    outs = ["", "-", "0x", "0b", "-0x", "-0b", "_", "_1", "-_1", "0x_1", "12a", "0b2", "0b12", "0xg", "0x1g", "1-", "--1", "+1", " 1", "1 ", "x1", "0x-1",
            "1.0", "1e3", "0o7", "#1", "1,000"]
    # out of range in every base, with and without separators
    for v in (hi + 1, hi + 2, lo - 1, lo - 2, hi * 2, hi * 16 + 15, hi * 10 + 9, lo * 10, 1 << 64, (1 << 64) + 1, 10 ** 39):
        if v < 0 and not signed:
            outs.append(str(v))
            continue
        sgn = "-" if v < 0 else ""
        a = abs(v)
        outs += [sgn + str(a), sgn + hex(a), sgn + bin(a), sgn + "{:_}".format(a), sgn + "0x" + "{:_x}".format(a), sgn + "0b" + "{:_b}".format(a)]
    if not signed:
        outs += ["-1", "-0", "-0x1"]
    # documented numerals in range (must be accepted, exact value)
    for v in (lo, hi, 0, 1, hi // 2, lo // 2, 1000, 123456 % (hi + 1)):
        sgn = "-" if v < 0 else ""
        a = abs(v)
        outs += [sgn + str(a), sgn + hex(a), sgn + bin(a), sgn + "{:_}".format(a), sgn + "0x" + "{:_x}".format(a), sgn + "0b" + "{:_b}".format(a),
                 sgn + "0" + str(a), sgn + hex(a).upper().replace("0X", "0x")]
    # leniency zone (unconstrained by the spec, recorded for information)
    outs += ["1_0", "0X1", "0B1", "1__0", "1_", "0x1_23"]
    return sorted(set(outs))


def run(chk, scratch):
    rng = random.Random(chk.seed + 606)
    quick = chk.tier == "quick"
    calls = []
    n = 0
    for ty, sg, bits, cty in TYPES:
        for v in values_for(sg, bits, rng, 6 if quick else 200):
            lit = ("static_cast<%s>(%dULL)" % (cty, v)) if v >= 0 else ("static_cast<%s>(-%dLL - 1)" % (cty, -v - 1))
            for base in (2, 10, 16):
                for group in (0, 1):
                    calls.append('  enc<%s>("%s", %d, %d, %s, %d, %d);' % (cty, ty, sg, bits, lit, base, group))
                    n += 1
        for s in malformed_for(sg, bits, rng):
            calls.append('  dec<%s>("%s", %d, %d, std::string("%s"));' % (cty, ty, sg, bits, s.replace("\\", "\\\\").replace('"', '\\"')))
            n += 1
    d = scratch.sub("codec")
    src = os.path.join(d, "codec.cc")
    # split into several functions to keep compile time sane
    parts = chunks(calls, max(1, len(calls) // 400))
    body = "\n".join("static void part%d() {\n%s\n}" % (i, "\n".join(p)) for i, p in enumerate(parts))
    main_calls = "\n".join("  part%d();" % i for i in range(len(parts)))
    with open(src, "w") as f:
        f.write(DRIVER.replace("int main() {\nCALLS", body + "\nint main() {\n" + main_calls))
    exe = os.path.join(d, "codec")
    rc, out = cpp.build(src, exe, std="c++14", opt="-O0")
    if rc != 0:
        raise MachineryError("codec driver does not build:\n" + out[-2000:])
    rc, so, se = cpp.run(exe, timeout=600)
    if rc != 0:
        chk.violation("codec-driver-crashed", "integer codec driver exited %d: %s" % (rc, se[-1500:]), None)
        return
    lines = [l for l in so.split("\n") if l]
    shards = chunks(lines, 8)

    def one(idx, sh):
        cf = os.path.join(d, "cases%d.json" % idx)
        with open(cf, "w") as f:
            f.write("[" + ",".join(sh) + "]")
        mod = os.path.join(d, "TextCheckRun%d.tla" % idx)
        with open(mod, "w") as f:
            f.write("---- MODULE TextCheckRun%d ----\nEXTENDS TextCheck\n====\n" % idx)
        cfg = os.path.join(d, "TextCheckRun%d.cfg" % idx)
        write_cfg(cfg, spec="Spec")
        return run_tlc(mod, cfg, lib_areas=("text",), workers=1, env={"CASES_FILE": cf}, timeout=1500, heap="2g")
    results = run_parallel([(lambda i=i, sh=sh: one(i, sh)) for i, sh in enumerate(shards)], nproc=8)
    total = 0
    for res in results:
        chk.add_tlc(res, part="TextCheck")
        outs = res.printed_json()
        summ = [o for o in outs if isinstance(o, dict) and o.get("summary")]
        if not summ:
            raise MachineryError("TextCheck produced no summary:\n" + res.out[-2000:])
        total += summ[0]["cases"]
        for o in outs:
            if isinstance(o, dict) and "clause" in o:
                c = o["case"]
                txt = "".join(chr(x) for x in (c.get("out") or c.get("in") or []))
                key = "codec:%s:%s" % (o["clause"], c["k"] + (":base%d%s" % (c["base"], ":grouped" if c.get("group") else "") if c["k"] == "enc" else ""))
                chk.violation(key, "%s fails for type %s on %r (case %s)" % (o["clause"], c["ty"], txt, json.dumps(c)[:400]), c)
    if total != len(lines):
        raise MachineryError("TextCheck consumed %d of %d cases" % (total, len(lines)))
    chk.traces += total
    chk.evaluations += total
    chk.nontrivial_count += total
    chk.sample({"codec_case": json.loads(lines[0])})
    chk.sample({"codec_case": json.loads(lines[-1])})
    chk.extra["codec_cases"] = total
