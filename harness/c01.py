"""C01 — generated views report structure state and values exactly as the .emb defines.

TLC (spec/view/View.tla + ViewTrace.tla) computes the reference observation vector for every buffer the
real generated C++ view was run on and compares it with what the view reported; PrefixMonotone is
evaluated between every buffer and its one-byte-shorter prefix.  Python renders, builds, runs, shards.
"""
import itertools
import json
import os

from . import view_catalog, view_prog, view_run
from .common import Scratch, MachineryError, run_parallel, NCPU

LEVEL = "model_checking"


def param_values(p, tier):
    lo, hi = (-(1 << (p["bits"] - 1)), (1 << (p["bits"] - 1)) - 1) if p["signed"] else (0, (1 << p["bits"]) - 1)
    vals = sorted(set([lo, hi, 0, 1, 2, min(hi, 3)]))
    vals = [v for v in vals if lo <= v <= hi]
    return vals if tier == "thorough" else vals[:4]


def jobs_for(prog, tier, budget):
    jobs = []
    structs = [tn for tn in prog.order if prog.types[tn]["kind"] == "struct" and tn not in prog.hidden]
    for tn in structs:
        T = prog.types[tn]
        pv = [param_values(p, tier) for p in T["params"]]
        combos = list(itertools.product(*pv))
        for ps in combos:
            jobs.append({"id": len(jobs), "t": tn, "ps": list(ps), "alphabet": view_run.alphabet_for(prog, tn)[:6],
                         "maxlen": None, "budget": max(200, budget // max(1, len(combos)))})
    return jobs


def field_kind(prog, tn, key):
    """Kind of the field a flattened observation key designates (walks a.b[3].c)."""
    T = prog.types[tn]
    parts = [p for p in key.split(".") if p]
    kind = "view"
    for i, part in enumerate(parts):
        name = part.split("[")[0]
        f = next((x for x in T["fields"] if x["name"] == name), None)
        if f is None:
            return "unknown"
        kind = f["kind"]
        if f["kind"] == "virt" and f["alias"]:
            kind = "alias"
        if i + 1 < len(parts):
            if f["kind"] == "sub":
                T = prog.types[f["type"]]
            elif f["kind"] == "array" and f["elem"]["kind"] == "sub":
                T = prog.types[f["elem"]["type"]]
            else:
                return "unknown"
    return kind


def classify(prog, m):
    """Mismatch record printed by ViewTrace -> list of (stable key, text)."""
    out = []
    tn = m["t"]
    if m["clause"] == "ObsEqualsReference":
        notes = {k: n for k, n in (m["exp"].get("notes") or [])}
        for x in m["exp"].get("miss") or []:
            e = x["exp"]
            note = e.get("n") or notes.get(e["k"].split("[")[0], "")
            key = "obs:%s.%s%s" % (field_kind(prog, tn, e["k"]), e["t"], ":" + note if note else "")
            out.append((key, "expected %s.%s = %s, view reported %s" % (e["k"] or "<view>", e["t"], e["v"], x["got"])))
        for g in m.get("got") or []:
            base = g[0].split("[")[0]
            note = notes.get(base, "")
            key = "extra:%s.%s%s" % (field_kind(prog, tn, g[0]), g[1], ":" + note if note else "")
            out.append((key, "view reported %s.%s = %s which the reference does not have" % (g[0], g[1], g[2])))
    else:
        for e in m["exp"]:
            key = "mono:%s.%s" % (field_kind(prog, tn, e["k"]), e["t"])
            out.append((key, "claim %s.%s = %s made on the one-byte-shorter prefix is not kept" % (e["k"] or "<view>", e["t"], e["v"])))
    return out


def buffer_at(lines, tid, ev, cache):
    """The buffer the ev-th arr event of trace tid observed (replays the depth-first walk)."""
    if tid not in cache:
        cache[tid] = json.loads(lines[tid - 1])["ev"]
    cur = []
    for e in cache[tid][:ev]:
        cur = [] if e["n"] < 0 else cur[: e["n"]] + [e["b"]]
    return cur


def check_program(chk, scratch, prog, tier, budget, san=False):
    """Enumerate buffers for every struct of prog, validate with TLC.  Returns #events."""
    jobs = jobs_for(prog, tier, budget)
    lines, text, err = view_run.run_enum_jobs(scratch, prog, jobs, san=san)
    if lines is None:
        if not prog.name.startswith("G"):
            # a hand-written catalogue program the compiler rejects is a slip in the catalogue, not an observation
            # (every catalogue program is legal by the language reference and accepted by the unchanged tree)
            chk.violation("catalogue-program-rejected:" + prog.name, "the compiler rejects the legal catalogue program %s: %s\n%s" % (prog.name, err[:2], text), {"emb": text})
            return 0
        chk.extra.setdefault("rejected_programs", []).append({"prog": prog.name, "errors": err[:2]})
        return 0
    if lines == "BUILD_FAILED":
        chk.violation("c++-build-failed:" + prog.name, "generated header + observation driver does not compile:\n" + str(err)[-1500:],
                      {"emb": text})
        return 0
    if lines == "RUN_FAILED":
        chk.violation(view_run.crash_key(err[0], err[1], prog.name), "observation driver crashed (rc=%s): %s" % err, {"emb": text})
        return 0
    # shard traces of one program over several TLC processes
    nshard = max(1, min(4, len(lines)))
    shards = [lines[i::nshard] for i in range(nshard)]
    results = run_parallel([(lambda sh=sh, i=i: view_run.validate_traces(scratch, prog, sh, "%s_%d" % (prog.name, i))) for i, sh in enumerate(shards)], nproc=nshard)
    nev = 0
    for (res, mism, summary), sh in zip(results, shards):
        chk.add_tlc(res, part="ViewTrace")
        nev += summary["events"]
        cache = {}
        for m in mism:
            buf = buffer_at(sh, m["tid"], m["ev"], cache)
            for key, desc in classify(prog, m):
                chk.violation(key, "%s (struct %s params %s, buffer = %s)" % (desc, m["t"], m["ps"], buf),
                              {"emb": text, "struct": m["t"], "params": m["ps"], "buffer": buf, "mismatch": m})
        if summary["bad"] and not mism:
            raise MachineryError("mismatches counted but not printed")
    return nev


def _wide(chk):
    """Values of virtual fields at 64-bit scale (the view programs above stay below 2^30 because TLC's integers are 32-bit):
    accepted modules of BoundsGen's wide family (UInt/Int:31..64 leaves, landmark constants around 2^31, 2^32, 2^63, 2^64) are
    read through the generated C++ at landmark environments; TLC (WideEval.tla, BigInt) decides Ok() and the value."""
    from . import c05, bounds_pool, bounds_cpp
    quick = chk.tier == "quick"
    ncase, procs = (300, 4) if quick else (6000, 12)
    with Scratch("c01w") as sc:
        jobs = [(lambda k=k: c05._gen(sc, "wide%d" % k, dict(Family='"wide"', Exhaustive="FALSE", MaxDepth=3, MaxMag=0, NVars=3, FullConsts="FALSE"),
                                      -(-ncase // procs), chk.seed * 1000 + 300 + k)) for k in range(procs)]
        cases, defs, seen = [], None, set()
        for name, res, d, cs in run_parallel(jobs, nproc=procs):
            chk.add_tlc(res, part="BoundsGen-wide")
            defs = defs or d
            for c in cs:
                key = repr((c["vars"], c["e"]))
                if key not in seen:
                    seen.add(key)
                    c["id"] = len(cases)
                    cases.append(c)
        recs = bounds_pool.compile_cases(cases, defs, nproc=max(2, NCPU // 2))
        acc = [r for r in recs if r["status"] == "accepted" and r["pos"] == "let"]
        by_id = {r["id"]: r for r in acc}
        n_env = 6 if quick else 12
        wcases, wfail = bounds_cpp.evaluate(sc, acc, defs, n_env=n_env, nproc=max(2, NCPU // 2))
        for status, detail, ids in wfail:
            chk.violation("wideval:%s" % status.lower(), "driver over the generated headers of accepted wide modules %s: %s\n%s" % (
                ids[:5], status, str(detail)[-2000:]), {"ids": ids, "emb": [by_id[i]["emb"] for i in ids[:3] if i in by_id]})
        n = 0
        if wcases:
            shards = [wcases[k::4] for k in range(4) if wcases[k::4]]
            fails = []
            for res, summ, fl in run_parallel([(lambda k=k, part=part: c05._check_wideval(sc, "we%d" % k, part)) for k, part in enumerate(shards)], nproc=4):
                chk.add_tlc(res, part="WideEval")
                n += summ["evals"]
                fails.extend(fl)
            for fid in sorted({f["id"] for f in fails}):
                c05._wideval_report(chk, sc, by_id[fid], defs, n_env, [f for f in fails if f["id"] == fid], "c%d" % fid)
        chk.extra["wide_values"] = {"generated": len(cases), "accepted_and_driven": len(wcases), "reads_judged": n}
    return n


def run(chk, only=None):
    tier = chk.tier
    progs = view_catalog.catalog()
    budget = 1000 if tier == "quick" else 20000
    total = 0
    with Scratch("c01") as sc:
        if only is not None and "enum" not in only:
            progs = []
        gen, gres = view_run.generated_programs(sc, 10 if tier == "quick" else 300, chk.seed + 1, 5 if tier == "quick" else 6, 2)
        chk.add_tlc(gres, part="ProgGen")
        chk.extra["generated_programs"] = len(gen)
        progs = progs + (gen if only is None or "enum" in only else [])
        def one(p):
            return check_program(chk, sc, p, tier, budget)
        # compile (python, in-process) is serial inside check_program; builds/TLC run in threads
        for n in run_parallel([(lambda p=p: one(p)) for p in progs], nproc=max(2, NCPU // 4)):
            total += n
    nwide = 0
    if only is None or "wide" in only:
        nwide = _wide(chk)
    chk.traces = total + nwide
    chk.evaluations = total + nwide
    chk.nontrivial_count = total + nwide
    chk.rule = ("every byte string over a per-program alphabet (constants the program mentions + edge bytes) up to MaxSizeInBytes+2, "
                "for every struct and parameter sample of each catalogue/generated program; each is one Arrive event whose recorded "
                "observation vector TLC compares with View!Obs and checks PrefixMonotone against its parent prefix")
    if progs:
        chk.sample({"program": progs[0].name, "emb": view_prog.render(progs[0])})
        chk.sample({"program": progs[-1].name, "emb": view_prog.render(progs[-1])})
    chk.assumptions += ["integers in view programs < 2^30 (field widths <= 24 bits); wide scalars are C02's job; values of wide EXPRESSIONS: part `wide` (WideEval.tla)",
                        "g++ -O1 build of the driver; sanitizer build is C04's job"]
