"""Pipeline shared by the view checks: program -> .emb -> REAL compiler -> header -> generated C++ driver
-> recorded behaviours -> TLC (spec/view/ViewTrace.tla) -> mismatches."""
import json
import os
import subprocess

from . import cpp, emb, view_driver, view_prog
from .common import MachineryError, run_tlc, write_cfg, SPEC


def compile_program(prog, outdir, enum_traits=True):
    """Render + compile with the real compiler.  Returns (header_path or None, emb_text, errors)."""
    text = view_prog.render(prog)
    name = prog.name.lower() + ".emb"
    header, ir, errors = emb.compile_header({name: text}, name, enum_traits=enum_traits)
    with open(os.path.join(outdir, name), "w") as f:
        f.write(text)
    if errors:
        return None, text, emb.flat_errors(errors)
    hp = os.path.join(outdir, name + ".h")
    with open(hp, "w") as f:
        f.write(header)
    return hp, text, []


def alphabet_for(prog, tn):
    """Bytes worth trying: those the program's constants mention, then edge values."""
    j = prog.to_json()
    consts = []

    def walk(e):
        if isinstance(e, dict):
            if e.get("k") in ("int", "enum") and 0 <= e["v"] <= 255:
                consts.append(e["v"])
            for v in e.values():
                walk(v)
        elif isinstance(e, list):
            for v in e:
                walk(v)
    for t in j["types"].values():
        walk(t)
    out = []
    for b in [0, 1, 2] + sorted(set(consts)) + [3, 255, 128, 9, 0x9a]:
        if b not in out:
            out.append(b)
    return out


def run_enum_jobs(scratch, prog, jobs, san=False, tag=""):
    """Build the enumeration driver for `prog`, run it, return list of per-job JSON strings (one per line)."""
    d = scratch.sub("p_" + prog.name.lower() + tag)
    hp, text, errors = compile_program(prog, d)
    if hp is None:
        return None, text, errors
    src = os.path.join(d, "driver.cc")
    with open(src, "w") as f:
        f.write(view_driver.gen_enum_driver(prog, os.path.basename(hp), jobs))
    exe = os.path.join(d, "driver")
    rc, out = cpp.build(src, exe, includes=[d], san=san, opt="-O1")
    if rc != 0:
        return "BUILD_FAILED", text, out
    outp = os.path.join(d, "trace.ndjson")
    rc, so, se = cpp.run(exe, timeout=900, env=None) if False else _run(exe, outp)
    if rc != 0:
        return "RUN_FAILED", text, (rc, se[-4000:])
    with open(outp) as f:
        lines = [l for l in f.read().split("\n") if l]
    os.remove(exe)
    return lines, text, []


def _run(exe, outp):
    e = dict(os.environ)
    e["ASAN_OPTIONS"] = "detect_leaks=0:exitcode=66"
    e["UBSAN_OPTIONS"] = "print_stacktrace=1:halt_on_error=1:exitcode=67"
    p = subprocess.run([exe, outp], stdout=subprocess.PIPE, stderr=subprocess.PIPE, text=True, timeout=1800, env=e, errors="replace")
    return p.returncode, p.stdout, p.stderr


def validate_traces(scratch, prog, trace_lines, name, timeout=1800):
    """Run ViewTrace.tla over recorded traces.  Returns (TLCResult, mismatches, summary)."""
    d = scratch.sub("tlc_" + name)
    tf = os.path.join(d, "trace.json")
    with open(tf, "w") as f:
        f.write('{"prog":')
        f.write(json.dumps(view_prog.tlc_prog(prog), separators=(",", ":")))
        f.write(',"traces":[')
        f.write(",".join(trace_lines))
        f.write("]}")
    # root module must sit in the run directory
    mod = os.path.join(d, "ViewTraceRun.tla")
    with open(mod, "w") as f:
        f.write("---- MODULE ViewTraceRun ----\nEXTENDS ViewTrace\n====\n")
    cfg = os.path.join(d, "ViewTraceRun.cfg")
    write_cfg(cfg, spec="Spec")
    res = run_tlc(mod, cfg, lib_areas=("view",), workers=1, env={"TRACE_FILE": tf}, timeout=timeout, heap="3g")
    outs = res.printed_json()
    summary = [o for o in outs if isinstance(o, dict) and o.get("summary")]
    mism = [o for o in outs if isinstance(o, dict) and "clause" in o]
    if not summary:
        raise MachineryError("ViewTrace produced no summary for %s:\n%s" % (name, res.out[-3000:]))
    os.remove(tf)
    return res, mism, summary[0]
