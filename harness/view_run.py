"""Pipeline shared by the view checks: program -> .emb -> REAL compiler -> header -> generated C++ driver
-> recorded behaviours -> TLC (spec/view/ViewTrace.tla) -> mismatches."""
import json
import os
import subprocess

from . import cpp, emb, view_driver, view_prog
from .common import MachineryError, run_tlc, write_cfg, SPEC


def compile_program(prog, outdir, enum_traits=True):
    """Render + compile with the real compiler.  Returns (header_path or None, emb_text, errors)."""
    text = view_prog.render(prog)
    name = prog.name.lower() + ".emb"
    header, ir, errors = emb.compile_header({name: text}, name, enum_traits=enum_traits)
    with open(os.path.join(outdir, name), "w") as f:
        f.write(text)
    if errors:
        return None, text, emb.flat_errors(errors)
    hp = os.path.join(outdir, name + ".h")
    with open(hp, "w") as f:
        f.write(header)
    return hp, text, []


def alphabet_for(prog, tn):
    """Bytes worth trying: those the program's constants mention, then edge values."""
    j = prog.to_json()
    consts = []

    def walk(e):
        if isinstance(e, dict):
            if e.get("k") in ("int", "enum") and 0 <= e["v"] <= 255:
                consts.append(e["v"])
            for v in e.values():
                walk(v)
        elif isinstance(e, list):
            for v in e:
                walk(v)
    for t in j["types"].values():
        walk(t)
    out = []
    for b in [0, 1, 2] + sorted(set(consts)) + [3, 255, 128, 9, 0x9a]:
        if b not in out:
            out.append(b)
    return out


def run_enum_jobs(scratch, prog, jobs, san=False, tag=""):
    """Build the enumeration driver for `prog`, run it, return list of per-job JSON strings (one per line)."""
    d = scratch.sub("p_" + prog.name.lower() + tag)
    hp, text, errors = compile_program(prog, d)
    if hp is None:
        return None, text, errors
    src = os.path.join(d, "driver.cc")
    with open(src, "w") as f:
        f.write(view_driver.gen_enum_driver(prog, os.path.basename(hp), jobs))
    exe = os.path.join(d, "driver")
    rc, out = cpp.build(src, exe, includes=[d], san=san, opt="-O1")
    if rc != 0:
        return "BUILD_FAILED", text, out
    outp = os.path.join(d, "trace.ndjson")
    rc, so, se = cpp.run(exe, timeout=900, env=None) if False else _run(exe, outp)
    if rc != 0:
        return "RUN_FAILED", text, (rc, se[-4000:])
    with open(outp) as f:
        lines = [l for l in f.read().split("\n") if l]
    os.remove(exe)
    return lines, text, []


def crash_key(rc, stderr, progname):
    """Stable key for a driver that did not finish: what kind of event stopped it and where."""
    import re
    se = stderr or ""
    m = re.search(r"AddressSanitizer: ([a-zA-Z-]+)", se)
    if m:
        fn = re.search(r"#\d+ 0x[0-9a-f]+ in ([A-Za-z_:~<>]+?)[(<\s]", se)
        return "asan:%s@%s" % (m.group(1), (fn.group(1) if fn else "?")[:80])
    m = re.search(r"([^\s:]+\.h):\d+:\d+: runtime error: ([a-z -]+)", se)
    if m:
        return "ubsan:%s@%s" % (m.group(2).strip().replace(" ", "-")[:50], m.group(1).split("/")[-1])
    m = re.search(r"([A-Za-z_./]+\.h):\d+: [^\n]*Assertion `([^']{0,60})", se)
    if m:
        return "assert:%s@%s" % (re.sub(r"\W+", "-", m.group(2))[:50], m.group(1).split("/")[-1])
    return "driver-crashed:rc%s:%s" % (rc, progname)


def _run(exe, outp):
    e = dict(os.environ)
    e["ASAN_OPTIONS"] = "detect_leaks=0:exitcode=66"
    e["UBSAN_OPTIONS"] = "print_stacktrace=1:halt_on_error=1:exitcode=67"
    p = subprocess.run([exe, outp], stdout=subprocess.PIPE, stderr=subprocess.PIPE, text=True, timeout=1800, env=e, errors="replace")
    return p.returncode, p.stdout, p.stderr


def validate_traces(scratch, prog, trace_lines, name, timeout=1800):
    """Run ViewTrace.tla over recorded traces.  Returns (TLCResult, mismatches, summary)."""
    d = scratch.sub("tlc_" + name)
    tf = os.path.join(d, "trace.json")
    with open(tf, "w") as f:
        f.write('{"prog":')
        f.write(json.dumps(view_prog.tlc_prog(prog), separators=(",", ":")))
        f.write(',"traces":[')
        f.write(",".join(trace_lines))
        f.write("]}")
    # root module must sit in the run directory
    mod = os.path.join(d, "ViewTraceRun.tla")
    with open(mod, "w") as f:
        f.write("---- MODULE ViewTraceRun ----\nEXTENDS ViewTrace\n====\n")
    cfg = os.path.join(d, "ViewTraceRun.cfg")
    write_cfg(cfg, spec="Spec", invariants=["Checked"])
    res = run_tlc(mod, cfg, lib_areas=("view", "text"), workers=1, env={"TRACE_FILE": tf}, timeout=timeout, heap="3g")
    outs = res.printed_json()
    summary = [o for o in outs if isinstance(o, dict) and o.get("summary")]
    mism = [o for o in outs if isinstance(o, dict) and "clause" in o]
    if not summary:
        raise MachineryError("ViewTrace produced no summary for %s:\n%s" % (name, res.out[-3000:]))
    os.remove(tf)
    return res, mism, summary[0]


# ------------------------------------------------------------------------------------------------
# behaviours: TLC generates (ViewGen), the real code replays, TLC validates (ViewTrace)
# ------------------------------------------------------------------------------------------------
import random


def harvest(scratch, prog, tier_budget=400, san=False):
    """Run the enumeration driver with a small budget; return {(t, ps): {"ok": [bufs], "other": [bufs]}}.
    Used only to pick *seed inputs* for behaviours (no verdict is derived here)."""
    from .c01 import jobs_for
    jobs = jobs_for(prog, "quick", tier_budget)
    lines, text, err = run_enum_jobs(scratch, prog, jobs, tag="_h", san=san)
    if not isinstance(lines, list):
        return None, text, (lines, err)
    out = {}
    for l in lines:
        d = json.loads(l)
        cur = []
        ok, other = [], []
        for ev in d["ev"]:
            cur = [] if ev["n"] < 0 else cur[: ev["n"]] + [ev["b"]]
            vok = ev["o"][0][2]
            (ok if vok == 1 else other).append(list(cur))
        out[(d["t"], tuple(d["ps"]))] = {"ok": ok, "other": other}
    return out, text, None


def generate(scratch, prog, t, ps, seeds, targets, actions, depth, num, seed, name):
    d = scratch.sub("gen_" + name)
    gf = os.path.join(d, "gen.json")
    with open(gf, "w") as f:
        json.dump({"prog": view_prog.tlc_prog(prog), "t": t, "ps": list(ps), "seeds": seeds,
                   "targets": [{"path": g["path"], "st": g["st"], "w": g["w"], "extra": g["extra"]} for g in targets],
                   "actions": actions, "depth": depth, "nopts": len(view_driver.TEXT_OPTS)}, f, separators=(",", ":"))
    mod = os.path.join(d, "ViewGenRun.tla")
    with open(mod, "w") as f:
        f.write("---- MODULE ViewGenRun ----\nEXTENDS ViewGen\n====\n")
    cfg = os.path.join(d, "ViewGenRun.cfg")
    write_cfg(cfg, spec="Spec")
    res = run_tlc(mod, cfg, lib_areas=("view",), workers=1, simulate=num, depth=3 * depth + 6, seed=seed,
                  env={"GEN_FILE": gf}, timeout=900, heap="2g")
    hists = [h for h in res.printed_json() if isinstance(h, list)]
    return res, hists


def replay(scratch, prog, structs, traces, name, san=False):
    """structs: [{"t", "targets"}]; traces: [(struct index, ps, hist)].  Returns list of trace JSON lines."""
    d = scratch.sub("rp_" + name)
    hp, text, errors = compile_program(prog, d)
    if hp is None:
        return None, text, errors
    cmd = os.path.join(d, "cmds.txt")
    with open(cmd, "w") as f:
        for si, ps, hist in traces:
            tg = structs[si]["targets"]
            f.write("T %d %d %s\n" % (si, len(ps), " ".join(str(x) for x in ps)))
            for ev in hist:
                if ev["e"] == "mem":
                    b = ev["bytes"]
                    f.write("M %d %s %d %d %d %d\n" % (len(b), " ".join(str(x) for x in b), ev["a"][0], ev["a"][1], ev["b"][0], ev["b"][1]))
                elif ev["e"] == "wr":
                    wid = next(k for k, g in enumerate(tg) if g["path"] == list(ev["path"]))
                    f.write("W %d %d %d\n" % (ev["win"], wid, ev["x"]))
                elif ev["e"] == "eq":
                    f.write("E\n")
                elif ev["e"] == "eqs":
                    f.write("Q\n")
                elif ev["e"] == "cp":
                    f.write("C %d\n" % ev["dst"])
                elif ev["e"] == "text":
                    f.write("X %d\n" % ev["opt"])
    exe = os.path.join(d, "driver")
    src = os.path.join(d, "driver.cc")
    with_eq = True
    with open(src, "w") as f:
        f.write(view_driver.gen_replay_driver(prog, os.path.basename(hp), structs, with_equals=True))
    rc, out = cpp.build(src, exe, includes=[d], san=san, opt="-O1")
    build_note = None
    if rc != 0:
        first_err = out
        with open(src, "w") as f:
            f.write(view_driver.gen_replay_driver(prog, os.path.basename(hp), structs, with_equals=False))
        rc, out = cpp.build(src, exe, includes=[d], san=san, opt="-O1")
        if rc != 0:
            return "BUILD_FAILED", text, first_err
        build_note = first_err
        with_eq = False
    outp = os.path.join(d, "trace.ndjson")
    e = dict(os.environ)
    e["ASAN_OPTIONS"] = "detect_leaks=0:exitcode=66"
    e["UBSAN_OPTIONS"] = "print_stacktrace=1:halt_on_error=1:exitcode=67"
    p = subprocess.run([exe, cmd, outp], stdout=subprocess.PIPE, stderr=subprocess.PIPE, text=True, timeout=1800, env=e, errors="replace")
    if p.returncode != 0:
        return "RUN_FAILED", text, (p.returncode, p.stderr[-4000:])
    with open(outp) as f:
        lines = [l for l in f.read().split("\n") if l]
    os.remove(exe)
    lines = [add_text_trees(l) if '"e":"text"' in l else l for l in lines]
    return lines, text, build_note


def add_text_trees(line):
    """Parse recorded text output into trees (format conversion only; TLC judges the tree)."""
    from . import view_text
    d = json.loads(line)
    for ev in d["ev"]:
        if ev["e"] == "text":
            txt = "".join(chr(c) for c in ev.pop("text"))
            ev["raw"] = txt
            o = view_driver.TEXT_OPTS[ev["opt"] - 1]
            ev["opt"] = {"ml": o[0], "comments": o[1], "base": o[2], "group": o[3], "idx": ev["opt"]}
            if ev["skipped"]:
                ev["tree"] = []
            else:
                tree, err = view_text.parse(txt)
                if tree is None:
                    ev["tree"] = [{"n": "(unparseable: %s)" % err, "v": {"k": "id", "s": ""}}]
                else:
                    ev["tree"] = tree
    return json.dumps(d, separators=(",", ":"))


def flip_bit(buf, i):
    b = list(buf)
    b[i // 8] ^= 1 << (i % 8)
    return b


def find_ok_buffers(scratch, prog, structs, si, t, ps, bufs, rng, tag, want=6, tries=600):
    """More Ok seed buffers when the enumeration found (almost) none: random buffers over the program's alphabet, run through
    the real view, kept when the view reports Ok().  Picks inputs only; nothing is judged here."""
    known = bufs["ok"] + bufs["other"]
    lmax = max([len(b) for b in known] + [1])
    alpha = alphabet_for(prog, t)
    cands = []
    for k in range(tries):
        n = rng.choice([lmax, max(0, lmax - 1), max(0, lmax - 2), max(0, lmax - 2), rng.randrange(0, lmax + 1)])
        cands.append([rng.choice(alpha) if rng.random() < 0.85 else rng.randrange(256) for _ in range(n)])
    traces = [(si, list(ps), [{"e": "mem", "bytes": b, "a": [0, len(b)], "b": [0, len(b)]}]) for b in cands]
    lines, _text, _note = replay(scratch, prog, structs, traces, tag + "_seedsearch_" + prog.name)
    found = []
    if isinstance(lines, list):
        for l in lines:
            d = json.loads(l)
            for ev in d["ev"]:
                if ev["e"] == "mem" and ev["o"] and ev["o"][0][2] == 1 and ev["bytes"] not in found:
                    found.append(ev["bytes"])
    return found[:want]


def seeds_for(bufs, mode, rng, limit=24):
    """Seed allocations (mem + two windows) for behaviours.  mode 'single': both windows = whole mem.
    mode 'pair': equal / one-bit-different / padding-different / different-length / truncated / overlapping."""
    ok, other = bufs["ok"], bufs["other"]
    seeds = []

    def S(b, a, w2):
        seeds.append({"bytes": list(b), "a": list(a), "b": list(w2)})
    if mode == "trunc":
        # every truncation of a few Ok buffers (both windows = the whole, truncated, memory): the checked write API on views
        # whose destination bytes are partly or wholly absent
        for b in ok[:2] + rng.sample(ok, min(len(ok), 2)):
            for n in range(len(b) + 1):
                S(b[:n], [0, n], [0, n])
        return seeds[:max(limit, 96)]
    if mode == "single":
        pick = ok[:3] + rng.sample(ok, min(len(ok), 8)) + other[-3:] + rng.sample(other, min(len(other), 4))
        for b in pick:
            S(b, [0, len(b)], [0, len(b)])
            if b:
                S([255] * len(b), [0, len(b)], [0, len(b)])
                S([0] * len(b), [0, len(b)], [0, len(b)])
        return seeds[:limit]
    pick = ok[:2] + rng.sample(ok, min(len(ok), 6))
    for b in pick:
        n = len(b)
        S(b + b, [0, n], [n, n])                                  # equal
        if n:
            S(b + flip_bit(b, rng.randrange(8 * n)), [0, n], [n, n])  # one bit differs (covered or not)
        S(b + [1] + b + [2], [0, n + 1], [n + 1, n + 1])          # trailing bytes differ (never covered)
        S(b + b + [9, 9], [0, n], [n, n + 2])                     # different lengths
        if n:
            S(b + b[:-1], [0, n], [n, n - 1])                     # one truncated
        c = rng.choice(ok)
        S(b + c, [0, n], [n, len(c)])                             # two unrelated Ok buffers
        for sh in (1, 2):                                         # overlapping windows of one allocation
            if n > sh:
                S(b + b[-sh:], [0, n], [sh, n])
    for b in other[-2:]:
        n = len(b)
        S(b + b, [0, n], [n, n])
    rng.shuffle(seeds)
    return seeds[:limit]


def behaviour_traces(scratch, prog, mode, actions, nbeh, depth, seed, tag, san=False):
    """harvest -> generate -> replay.  Returns (lines, text, note, structs, gen_results) or (status, text, detail, None, None)."""
    hv, text, err = harvest(scratch, prog, 300, san=san)
    if hv is None:
        if isinstance(err, tuple) and err[0] in ("BUILD_FAILED", "RUN_FAILED"):
            return err[0], text, err[1], None, None
        return None, text, err, None, None
    rng = random.Random(seed * 7919 + len(text))
    structs, traces, gens = [], [], []
    jobs = []
    for (t, ps), bufs in sorted(hv.items()):
        si = next((k for k, s in enumerate(structs) if s["t"] == t), None)
        if si is None:
            structs.append({"t": t, "targets": view_driver.write_targets(prog, t)})
            si = len(structs) - 1
        if len(bufs["ok"]) < 3:
            bufs = {"ok": bufs["ok"] + find_ok_buffers(scratch, prog, structs, si, t, ps, bufs, rng, tag), "other": bufs["other"]}
        seeds = seeds_for(bufs, mode, rng)
        if not seeds or (not structs[si]["targets"] and actions == ["wr"]):
            continue
        jobs.append((si, t, ps, seeds))

    def gen(job):
        si, t, ps, seeds = job
        res, hists = generate(scratch, prog, t, ps, seeds, structs[si]["targets"], actions, depth, nbeh, seed + si,
                              "%s_%s_%s_%s" % (tag, prog.name, t, "_".join(str(x).replace("-", "m") for x in ps)))
        return si, ps, res, hists
    from .common import run_parallel
    for si, ps, res, hists in run_parallel([(lambda j=j: gen(j)) for j in jobs], nproc=4):
        gens.append(res)
        for h in hists:
            traces.append((si, list(ps), h))
    if not traces:
        return [], text, None, structs, gens
    lines, text, note = replay(scratch, prog, structs, traces, tag + "_" + prog.name, san=san)
    return lines, text, note, structs, gens


def model_check(scratch, prog, t, ps, alphabet, maxlen, targets, name, invariants, properties=(), timeout=900, workers=4):
    """Design-level MC of the reference semantics (spec/view/ViewMC.tla) for one struct."""
    d = scratch.sub("mc_" + name)
    mf = os.path.join(d, "mc.json")
    with open(mf, "w") as f:
        json.dump({"prog": view_prog.tlc_prog(prog), "t": t, "ps": list(ps), "alphabet": alphabet, "maxlen": maxlen,
                   "targets": [{"path": g["path"], "st": g["st"], "w": g["w"], "extra": g["extra"]} for g in targets]}, f, separators=(",", ":"))
    mod = os.path.join(d, "ViewMCRun.tla")
    with open(mod, "w") as f:
        f.write("---- MODULE ViewMCRun ----\nEXTENDS ViewMC\n====\n")
    cfg = os.path.join(d, "ViewMCRun.cfg")
    write_cfg(cfg, spec="Spec", invariants=invariants, properties=properties)
    return run_tlc(mod, cfg, lib_areas=("view",), workers=workers, env={"MC_FILE": mf}, timeout=timeout, heap="3g", coverage=True)


def generated_programs(scratch, n, seed, maxphys=5, maxvirt=2, name="pg"):
    """TLC -simulate of spec/view/ProgGen.tla -> list of Programs (plus the TLCResult)."""
    d = scratch.sub("proggen_" + name)
    mod = os.path.join(d, "ProgGenRun.tla")
    with open(mod, "w") as f:
        f.write("---- MODULE ProgGenRun ----\nEXTENDS ProgGen\n====\n")
    cfg = os.path.join(d, "ProgGenRun.cfg")
    write_cfg(cfg, spec="Spec", constants={"MaxPhys": maxphys, "MaxVirt": maxvirt})
    res = run_tlc(mod, cfg, lib_areas=("view",), workers=1, simulate=n, depth=maxphys + maxvirt + 6, seed=seed, timeout=900, heap="2g")
    progs = []
    seen = set()
    for j in res.printed_json():
        if not isinstance(j, dict) or "types" not in j:
            continue
        key = json.dumps(j["types"]["Main"], sort_keys=True)
        if key in seen:
            continue
        seen.add(key)
        j["name"] = "G%ds%d" % (len(progs), seed)
        j["default_order"] = "LE"
        progs.append(view_prog.from_json(j))
    return progs, res
