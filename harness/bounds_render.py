"""C05: abstract expression case (JSON emitted by spec/bounds/BoundsGen.tla) -> .emb text.

Pure rendering: no value is computed here.  Big literals arrive as little-endian base-10000 limbs
(TLC has no integers >= 2^31) and are printed in decimal.
"""

STRUCT = "Foo"


def limbs_to_int(limbs):
    n = 0
    for i, x in enumerate(limbs):
        n += x * 10000 ** i
    return n


def int_to_limbs(n):
    n = abs(n)
    out = []
    while n:
        out.append(n % 10000)
        n //= 10000
    return out


def _is_zero_lit(e):
    return (e["k"] == "int" and e["v"] == 0) or (e["k"] == "big" and not e["l"])


def _is_lit(e):
    return e["k"] in ("int", "big")


def expr(e):
    """Fully parenthesised concrete syntax (so precedence never matters)."""
    k = e["k"]
    if k == "int":
        return str(e["v"])
    if k == "big":
        return str(limbs_to_int(e["l"]))
    if k == "bool":
        return "true" if e["v"] else "false"
    if k == "var":
        return e["n"]
    if k == "cref":
        return e["n"]
    if k == "pres":
        return "$present(%s)" % e["n"]
    assert k == "op", e
    fn = e["fn"]
    args = e["args"]
    if fn == "-" and _is_zero_lit(args[0]) and _is_lit(args[1]) and not _is_zero_lit(args[1]):
        # 0 - literal is how the generator writes a negative constant: use the unary minus
        return "-" + expr(args[1])
    a = [expr(x) for x in args]
    if fn == "?:":
        return "(%s ? %s : %s)" % (a[0], a[1], a[2])
    if fn.startswith("$"):
        return "%s(%s)" % (fn, ", ".join(a))
    # a negative literal directly after a binary operator is fine inside parentheses
    return "(%s %s %s)" % (a[0], fn, a[1])


def _defs_text(defs):
    consts = [d for d in defs if d["n"].startswith("Consts.")]
    colors = [d for d in defs if d["n"].startswith("Color.")]
    out = []
    if colors:
        out.append("enum Color:")
        for d in colors:
            out.append("  %s = %s" % (d["n"].split(".")[1], expr(d["e"])))
        out.append("")
    if consts:
        out.append("struct Consts:")
        for d in consts:
            out.append("  let %s = %s" % (d["n"].split(".")[1], expr(d["e"])))
        out.append("")
    return out


def _has_pres(e):
    return e["k"] == "pres" or any(_has_pres(a) for a in e.get("args", ()))


# the members $present() may be asked about (BoundsGen!PresNames, BoundsCheck!PresVal); the guards ga / gc are
# ordinary variables of the case (BoundsGen!GuardVars), "sub.gy" / "osub.gy" are the member gy of those fields
SUB = ["struct Sub:", "  0 [+1]  bits:", "    0 [+1]  UInt  gy", "  if gy == 1:", "    1 [+1]  UInt  py", "  2 [+1]  UInt  pz", ""]


def _used_vars(e, acc):
    if e["k"] == "var":
        acc.add(e["n"])
    for a in e.get("args", ()):
        _used_vars(a, acc)
    return acc


def render(case, defs):
    """Returns the .emb text placing case["e"] as `let v` and at case["pos"]."""
    lines = ['[$default byte_order: "LittleEndian"]', ""]
    lines += _defs_text(defs)
    pres = _has_pres(case["e"])
    if pres:
        lines += SUB
    used = _used_vars(case["e"], set())
    params = [v for v in case["vars"] if v["param"]]
    phys = [v for v in case["vars"] if not v["param"] and "." not in v["n"]]
    flags = sorted(n for n in used if n not in {v["n"] for v in case["vars"]})  # wide family: one-bit flags
    head = "struct %s" % STRUCT
    if params:
        head += "(%s)" % ", ".join("%s: %s:%d" % (v["n"], v["k"], v["w"]) for v in params)
    lines.append(head + ":")
    text = expr(case["e"])
    pos = case["pos"]
    if pos == "requires":
        lines.append("  [requires: %s]" % text)
    off = 0
    for v in phys:
        nbytes = (v["w"] + 7) // 8
        lines.append("  %d [+%d]  bits:" % (off, nbytes))
        lines.append("    0 [+%d]  %s  %s" % (v["w"], v["k"], v["n"]))
        off += nbytes
    for n in flags:
        lines.append("  %d [+1]  bits:" % off)
        lines.append("    0 [+1]  UInt  %s" % n)
        off += 1
    if pres:
        lines.append("  %d [+1]  UInt  pa" % off)
        lines.append("  if ga == 1:")
        lines.append("    %d [+1]  UInt  pb" % (off + 1))
        lines.append("  %d [+3]  Sub  sub" % (off + 2))
        lines.append("  if gc == 1:")
        lines.append("    %d [+3]  Sub  osub" % (off + 5))
        off += 8
    lines.append("  let v = %s" % text)
    if pos == "size":
        lines.append("  %d [+%s]  UInt:8[]  arr" % (off, text))
    elif pos == "offset":
        lines.append("  %s [+1]  UInt  tail" % text)
    elif pos == "cond":
        lines.append("  if %s:" % text)
        lines.append("    %d [+1]  UInt  opt" % off)
    return "\n".join(lines) + "\n"
