"""C03, run-time-level part: CouldWriteValue / TryToWrite / read-back / neighbour-bit preservation
of the REAL scalar views (REPO/runtime/cpp) decided by spec/scalar/Scalar.tla through ScalarCheck.tla.

harness/c03.py calls ``run_runtime_part(chk, scratch)``.

What is driven (harness/scalar_rt.py, W records):
  * every static (type, width, container, byte order, direct/offset, alignment) instantiation of
    UIntView/IntView/BcdView/FlagView/FloatView/EnumView over BitBlock/OffsetBitBlock,
    at the maximal offset and one seeded offset (thorough: offsets 0, 1, max-1, max, seeded);
  * frame probes: min, max, mid, 0 (thorough also -1, max+1) written through the view's own value
    type onto an all-0 and an all-1 container;
  * range probes (one offset per (type, width) in its least container and in the 64-bit one): the
    symbolic values min-1, min, -1, 0, 1, 2, max-1, max, max+1, 2^w-1, 2^w, int64 min/max,
    uint64 max, 99..9, mid -- materialised with __int128 and passed in every C++ integer type the
    API accepts (int8..int64, uint8..uint64, the view's ValueType) that can hold the value.
TLC checks, per record: the driver materialised the value the symbol denotes; CouldWriteValue ==
Representable; TryToWrite == CouldWriteValue (complete field); failed write leaves the bytes
unchanged; successful write changes only bits [o, o+w) and stores Encode(v); Ok() and Read() == v
afterwards; no EMBOSS_CHECK fired.
"""
import os

from . import scalar_check, scalar_rt
from .common import NCPU, Scratch

RULE_RT = ("run-time level: W records from the real views for every static (type,width,container,byte order) "
           "instantiation; symbolic boundary values (min-1,min,-1,0,1,2,max-1,max,max+1,2^w-1,2^w,int64/uint64 limits) "
           "passed in every accepted C++ integer type; all-0 and all-1 containers; TLC (Scalar.tla WriteResult) decides "
           "CouldWriteValue, TryToWrite, post-container bits (frame condition) and read-back")


def run_runtime_part(chk, scratch, nshards=None):
    """Adds the run-time-level C03 verdicts/evidence to chk.  `scratch` is a common.Scratch (or a directory)."""
    if isinstance(scratch, Scratch):
        d = scratch.sub("c03rt")
    else:
        d = os.path.join(str(scratch), "c03rt")
        os.makedirs(d, exist_ok=True)
    tier = chk.tier
    configs = scalar_rt.static_configs(tier)
    paths = scalar_rt.write_sources(d, configs, nshards or (16 if tier == "quick" else 32))
    exes = scalar_rt.build(d, paths)
    files, total = scalar_rt.run_drivers(exes, d, tier, "W", chk.seed)
    parts_dir = os.path.join(d, "parts")
    os.makedirs(parts_dir, exist_ok=True)
    parts_files, nrec = scalar_rt.rebalance(files, parts_dir, "wpart", min(scalar_rt.max_procs(), 16))
    results, mism, summ = scalar_check.check_files(parts_files, d)
    for r in results:
        chk.add_tlc(r, part="runtime-writes")
    n = sum(s["records"] for s in summ)
    chk.traces += n
    chk.evaluations += n
    chk.nontrivial_count += sum(s["nontrivial"] for s in summ)
    nviol = scalar_check.report(chk, mism)
    chk.extra["runtime_part"] = dict(static_configs=len(configs), write_records=n, mismatching_clauses=nviol,
                                     rule=RULE_RT)
    for m in mism[:2]:
        chk.sample(m)
    chk.assumptions.append("run-time-level writes: fields are complete (TryToWrite's 'bytes present' condition is the "
                           "structure-level part of C03); Float values are bit patterns; host is little-endian x86-64")
    return dict(records=n, mismatches=len(mism))
