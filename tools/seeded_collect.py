#!/usr/bin/env python3
"""Assemble /verif/seeded/<id>/ from a sub-agent's output directory and the seedcheck result lines.

  tools/seeded_collect.py <results.jsonl>...      (later lines for the same directory override earlier ones)

For each evaluated change: seeded/<prop>-<k>/ gets patch.diff, the demonstration files, the agent's meta.txt and
meta.json (property, what it needs to manifest, what was run and what came out: suite, demo both ways, checks).
Also writes seeded/README.md (the table DESIGN.md section 0.4 refers to).
"""
import json
import os
import shutil
import sys

V = os.path.dirname(os.path.dirname(os.path.abspath(__file__)))
SEEDED = os.path.join(V, "seeded")
SKIP = {"pytest.log", "pytest_full.log", "tests_full.txt", "tests_with_change.txt", "__pycache__"}


def main():
    results = {}
    first = {}      # (dir, check) -> caught in the first evaluation of that pair (before any strengthening)
    for path in sys.argv[1:]:
        for line in open(path):
            line = line.strip()
            if not line.startswith("{"):
                continue
            d = json.loads(line)
            key = d["dir"]
            for c, v in d.get("checks", {}).items():
                first.setdefault((key, c), v["rc"] == 1 and v["violations"] > 0)
            prev = results.get(key)
            if prev:
                # keep suite/demo facts from whichever run established them; merge check outcomes (later wins)
                for f in ("suite_passes", "suite", "demo_fails_with_change", "demo_passes_without", "demo_tail_with_change", "applies"):
                    if f not in d and f in prev:
                        d[f] = prev[f]
                checks = dict(prev.get("checks", {}))
                checks.update(d.get("checks", {}))
                d["checks"] = checks
            results[key] = d
    os.makedirs(SEEDED, exist_ok=True)
    rows = []
    for src, d in sorted(results.items()):
        prop, k = src.rstrip("/").split("out-")[1].split("/")
        second_round = "/seed2/" in src
        if second_round:
            k = str(int(k) + 2)      # the second round of sub-agents: ids <prop>-3, <prop>-4
        sid = "%s-%s" % (prop, k)
        dst = os.path.join(SEEDED, sid)
        confirmed = bool(d.get("applies")) and d.get("suite_passes") is True and d.get("demo_fails_with_change") is True and d.get("demo_passes_without") is True
        if not confirmed:
            rows.append((sid, prop, "(not kept: %s)" % {k2: d.get(k2) for k2 in ("applies", "suite_passes", "demo_fails_with_change", "demo_passes_without")}, {}, "", None))
            shutil.rmtree(dst, ignore_errors=True)
            continue
        os.makedirs(dst, exist_ok=True)
        for n in os.listdir(src):
            p = os.path.join(src, n)
            if n in SKIP or os.path.isdir(p) or os.path.getsize(p) > 300000:
                continue
            shutil.copy(p, os.path.join(dst, n))
        meta_txt = ""
        mt = os.path.join(src, "meta.txt")
        if os.path.exists(mt):
            meta_txt = open(mt, errors="replace").read()
        caught = {c: (v["rc"] == 1 and v["violations"] > 0) for c, v in d.get("checks", {}).items()}
        own_first = first.get((src, prop))
        meta = {
            "id": sid,
            "caught_by_its_own_property_check_in_the_first_round": own_first,
            "breaks_property": prop,
            "origin": "independent sub-agent given only the property text and a scratch worktree (%s round)" % ("second" if second_round else "first"),
            "what_and_what_it_needs_to_manifest": meta_txt.strip()[:2500],
            "confirmed_here": {
                "patch_applies_to_repo_HEAD": d.get("applies"),
                "repository_suite_still_passes (tools/run_baseline.py on a scratch worktree with the patch)": d.get("suite_passes"),
                "demo_fails_with_change": d.get("demo_fails_with_change"),
                "demo_passes_on_unchanged_tree": d.get("demo_passes_without"),
            },
            "checks_run (tools/seedcheck.py: EMBOSS_REPO=<scratch worktree with patch> ./check <ID> --tier quick)": {
                c: {"caught": caught[c], "exit": v["rc"], "violations": v["violations"], "first_violation": v.get("first", "")[:400], "wall_s": v.get("wall_s")}
                for c, v in d.get("checks", {}).items()},
        }
        with open(os.path.join(dst, "meta.json"), "w") as f:
            json.dump(meta, f, indent=1)
        first_v = ""
        for c, v in d.get("checks", {}).items():
            if caught[c]:
                first_v = v.get("first", "")[:160].replace("|", "/").replace("\n", " ")
                break
        what = meta_txt.strip().splitlines()[0][:200].replace("|", "/") if meta_txt.strip() else ""
        rows.append((sid, prop, what, caught, first_v, own_first))
    with open(os.path.join(SEEDED, "README.md"), "w") as f:
        f.write("# Seeded changes\n\nEach directory holds a change to google/emboss written by an independent sub-agent that saw only the text of one "
                "property (never /verif), its demonstration, and `meta.json` with what was confirmed here (patch applies, the repository's suite "
                "still passes, the demonstration fails with the change and passes without it) and which of our checks catch it "
                "(`tools/seedcheck.py`, quick tier).  None of these changes is ever committed to /repo.\n\n")
        f.write("| id | change (first line of the author's note) | own check, first round | caught by (now) | missed by (now) | first violation |\n|---|---|---|---|---|---|\n")
        for sid, prop, what, caught, first_v, own_first in rows:
            f.write("| %s | %s | %s | %s | %s | %s |\n" % (sid, what, {True: "caught", False: "missed", None: "-"}[own_first],
                                                       ", ".join(c for c, x in caught.items() if x) or "-",
                                                       ", ".join(c for c, x in caught.items() if not x) or "-", first_v))
        n = sum(1 for r in rows if r[3])
        c = sum(1 for r in rows if any(r[3].values()))
        f.write("\n%d kept changes; %d caught by at least one check at the quick tier.\n" % (n, c))
    print("seeded: %d directories" % len(rows))


if __name__ == "__main__":
    main()
