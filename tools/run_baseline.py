#!/usr/bin/env python3
"""Run the repository's pinned test command (guard off) and compare with /root/.vp/BASELINE.json stable_pass."""
import json, os, subprocess, sys, tempfile, xml.etree.ElementTree as ET
base = json.load(open("/root/.vp/BASELINE.json"))
repo = sys.argv[1] if len(sys.argv) > 1 else "/repo"
fd, xml = tempfile.mkstemp(suffix=".xml"); os.close(fd)
cmd = base["cmd"].replace("cd /repo", "cd " + repo).replace("<file>", xml)
env = {k: v for k, v in os.environ.items() if not k.startswith("EMBOSS_VERIF")}
subprocess.run(cmd, shell=True, env=env, stdout=subprocess.DEVNULL, stderr=subprocess.DEVNULL)
passed = set()
for tc in ET.parse(xml).getroot().iter("testcase"):
    if not any(c.tag in ("failure", "error", "skipped") for c in tc):
        passed.add("%s::%s" % (tc.get("classname"), tc.get("name")))
os.remove(xml)
missing = [t for t in base["stable_pass"] if t not in passed]
print("stable_pass=%d passed_now=%d missing=%d" % (len(base["stable_pass"]), len(passed), len(missing)))
for t in missing[:20]:
    print("  NOT PASSING:", t)
sys.exit(1 if missing else 0)
