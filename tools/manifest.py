#!/usr/bin/env python3
"""Regenerates /verif/MANIFEST.json from the table below (single place to edit claims)."""
import json, os
V = os.path.dirname(os.path.dirname(os.path.abspath(__file__)))
props = [json.loads(l) for l in open(os.path.join(V, "properties.jsonl"))]

CLAIMS = {
 "C01": dict(
  level="model_checking", design="§3.4, §5 C01",
  text="TLA+ reference semantics of views (spec/view/View.tla, written from the language and C++ references, incl. the constant-folding rule of static ranges and the $min/$max size constants) evaluated by TLC on every buffer the real generated C++ view was run on: all byte strings over a per-program alphabet up to MaxSizeInBytes+2 for every struct/parameter sample of the feature catalogue and of TLC-generated programs (ProgGen.tla); TLC decides equality of the whole observation vector and PrefixMonotone between each buffer and its prefix. Exhaustive within the stated alphabet/length bounds; beyond them nothing is claimed.",
  note="Part `wide`: values of BoundsGen wide-family expressions (UInt/Int:31..64, landmark constants) read through the generated C++ and judged by WideEval.tla (BigInt). Trusts TLC, g++, the abstract-program renderer (its output is what the real compiler parses; replay files carry the rendered .emb). Field widths <= 24 bits so values fit TLC integers; wide scalars are C02. Named modelling decisions: DESIGN.md §7.3.",
  technique="TLA+ reference semantics + TLC trace validation of recorded C++ view observations"),
 "C02": dict(
  level="model_checking", design="§3.4 Scalar, §5 C02",
  text="Scalar.tla (bit-level decode of UInt/Int/Bcd/Flag/enum/Float patterns, byte order, bit numbering, value-type width) model-checked on small constants (ScalarMC, BVMC) and bound to the code: a generated driver instantiates the real run-time views for every (type, width, container, byte order) and dynamic offsets and, separately, real generated code for .emb modules; every (configuration, contents, Ok, Read, ValueType) record is compared by TLC (ScalarCheck.tla) with the specification. Contents: all-0, all-1, walking 1/0, nibble patterns, sign patterns, seeded fills - decoding is linear over bits, so these detect any wrong mapping, shift, mask or extension.",
  note="Run-time level exhaustive over configurations; generated-code level sampled placements in quick. 64-bit values travel as byte lists (BV.tla). Floats: bit-pattern identity only.",
  technique="TLA+ bit-vector semantics + TLC validation of recorded Read()/Ok() of real views"),
 "C03": dict(
  level="model_checking", design="§3.4, §5 C03",
  text="Write actions of View.tla (CouldWrite, TryToWrite, frame condition, inverse of +/- virtuals). TLC -simulate generates write behaviours (ViewGen.tla), the real generated code replays them, TLC validates every verdict, every complete post-buffer and the observation vector after each write (ViewTrace.tla). Run-time level: CouldWriteValue / write-read-back / neighbour-bit preservation for all widths and symbolic 64-bit boundary values (Scalar.tla).",
  note="Mode `trunc`: writes on every truncation of Ok buffers. Sampled behaviours (seeded), not exhaustive; values at range and [requires] edges; widths <= 24 bits at generated-code level.",
  technique="TLC-generated behaviours replayed into generated C++ + TLC trace validation"),
 "C04": dict(
  level="exploration", design="§5 C04, §8",
  text="TLC cannot observe an out-of-bounds access or UB: the specification supplies which calls the checked API permits in which state, the buffers (every byte string over the program alphabet up to MaxSize+2: empty, truncated, oversized, 0xff-filled) and TLC-generated behaviours (writes at range edges, overlapping copies, Equals, text round trips); the decisive observation is made by clang ASan+UBSan on exact-size heap buffers: a sanitizer report, an assert/EMBOSS_CHECK abort or a signal ends the trace and is a violation. The traces recorded from the sanitizer build are also validated by TLC against View.tla.",
  note="Parts: enum (enumerated buffers), single / pair / trunc behaviours, wide (64-bit arithmetic of the BoundsGen wide family under UBSan); every TryToCopyFrom also on exact-size allocations of their own. clang-14 sanitizer semantics; accesses inside the allocation but outside a sub-view are invisible; exploration level, not model checking.",
  technique="TLA+-generated buffers/behaviours replayed under ASan+UBSan (sanitizers as trace instrumentation)"),
 "C05": dict(
  level="model_checking", design="§3.3 Bounds, §5 C05",
  text="Bounds.tla: concrete semantics and the interval x congruence domain; BoundsMC model-checks the transfer-function theorem (Sound arguments => Sound result, tightness, constants exact) on small ranges. Binding: TLC (BoundsGen) generates expressions over every operator; the real front end compiles them; for EVERY subexpression the inferred (min, max, modulus, remainder) is recorded and TLC (BoundsCheck) enumerates all environments: soundness, congruence, constant => singleton, tightness for single-occurrence expressions; BoundsWide checks the 64-bit gate with BigInt interval arithmetic; WideEval validates the VALUE the generated C++ computes for accepted 64-bit-scale expressions at landmark leaf values (TLC evaluates over BigInt), binding the back end's choice of C++ integer types and the arithmetic helpers.",
  note="Leaves of 2-5 bits so all environments are enumerable; wide family exact only for single-occurrence expressions.",
  technique="TLA+ abstract-interpretation spec + TLC validation of bounds recorded from the real IR"),
 "C06": dict(
  level="model_checking", design="§3.4 Text, §5 C06",
  text="Text.tla: integer codec (EncodeInt/DecodeInt, malformed catalogue) model-checked on a small domain and bound to the real WriteIntegerToTextStream/DecodeInteger for all eight C++ integer types x bases x grouping (TextCheck.tla). Structure level: TLC-generated behaviours with text events on the catalogue programs; the real WriteToString output is parsed into a tree and TLC (ViewTrace!CheckText) decides names, presence, Skip/Emit, order after dependencies, values = field values, then UpdateFromText into a zeroed buffer succeeds and every emitted field reads back equal.",
  note="Behaviours start from Ok buffers found with the real view (find_ok_buffers) so that text events are not skipped; members of anonymous bits carry their own text attribute (ViewTrace!TextAttrIn). Float text rendering excluded (bit-pattern round trip only); single-line output with comments is outside the documented re-readable set.",
  technique="TLA+ text-format spec + TLC validation of recorded encoder/decoder and round-trip traces"),
 "C07": dict(
  level="exploration", design="§5 C07, §8",
  text="Validity of C++ is decided by g++: the specification supplies the quantifier - accepted modules generated by TLC (ProgGen.tla programs over every feature of the view catalogue, the identifier-shape catalogue NameGen.tla) plus the repository corpus; for each, the header emitted with and without enum traits is compiled under -std=c++11/14/17 together with a full-instantiation driver (explicit instantiation of every generated view class, every enum helper, text methods) and static_asserts of every compile-time constant against the value in the front end's IR.",
  note="Families: names (NameGen.tla), consts (ConstGen.tla landmarks as constants, enum values and `tag == landmark` conditionals; the module must be accepted), progs (catalogue incl. Nested/Fwd + ProgGen), corpus. exploration level: the verdict comes from the C++ compiler; g++ only (clang covered by C04's build).",
  technique="TLA+-generated accepted modules compiled and fully instantiated with g++ under three standards"),
 "C08": dict(
  level="model_checking", design="§3.2, §5 C08",
  text="CFG.tla (Earley recognizer, derivation checker, viable prefixes, ambiguity) + LRMachine.tla: TLC explores the shift-reduce machine on the tables the REAL generator built for a catalogue of grammars over ALL strings up to a bound (LRCheck invariants AcceptIffDerives, TreeIsDerivation, ErrorAtFirstNonViable, AmbiguousImpliesConflicts ...); TLC-enumerated small grammars (GrammarGen: exhaustive family + seeded samples) are given to the real lr1.Grammar(...).parser() and every recorded Parser.parse run on all strings up to the bound is validated by TLC (LRCases); the Emboss grammar is exercised with TLC-derived sentences and token mutations.",
  note="Strings <= 5 (2 terminals) / 4 (3 terminals) in quick; Emboss sentences <= 60 tokens.",
  technique="TLA+ CFG/LR-machine spec; TLC model checking on real tables + validation of recorded parses"),
 "C09": dict(
  level="model_checking", design="§5 C09",
  text="LRBisim.tla: TLC explores the product of the shipped parser tables and tables generated now from the grammar in the source and the error examples; every reachable state pair must agree on action kind, shift/goto correspondence, reduce production, error code and default error: a bisimulation, hence identical behaviour on EVERY token sequence, independent of state numbering. GrammarEq.tla: production sets of shipped tables, module_ir and doc/grammar.md are equal; documented token table = tokenizer's.",
  note="Exhaustive (finite automata). Trusts the JSON export of the table objects.",
  technique="TLC bisimulation of the shipped and freshly generated LR(1) automata"),
 "C10": dict(
  level="model_checking", design="§3.1, §5 C10",
  text="Lex.tla: a tokenizer written from the documented pattern table of doc/grammar.md (generic regex matcher, longest match, earliest pattern on ties, indentation stack) with the C10 properties as predicates; LexMC checks the machine exhaustively on short texts; LexCheck binds token lists recorded from the real tokenizer (exhaustive short lines, indentation texts, token soup, corpus and mutated corpus, Unicode line terminators): TLC compares with Tokenize(text) and evaluates Lossless, PositionsExact, LongestMatch, NewlinePerLine, IndentBalanced, classification on the RECORDED list.",
  note="Line splitting follows str.splitlines() (named modelling decision).",
  technique="TLA+ tokenizer spec from the documented pattern table + TLC validation of recorded token lists"),
 "C11": dict(
  level="model_checking", design="§5 C11",
  text="Fmt.tla states the formatter as an abstract action Format(indent): same tokens up to layout (by the specification's own tokenizer Lex.tla), result parses, second application is a stutter, layout facts. FmtMC model-checks the abstract action exhaustively on short texts (meaning preserved along every behaviour, fixed points exist, every source has a result). FmtTrace validates recorded traces t0 -fmt-> t1 -fmt-> t2 of the real formatter (corpus, re-spaced corpus, TLC-derived grammar sentences with comments/docs/odd spacing) for several indent widths, incl. exceptions, the built-in self check and the emboss-format command.",
  note="Layout beyond the stated facts (column alignment) is not specified.",
  technique="TLA+ refinement spec of formatting + TLC validation of recorded format traces"),
 "C12": dict(
  level="model_checking", design="§3.3 Scope, §5 C12",
  text="Scope.tla: scope tree, visibility classes, Resolve, canonical names, with CanonicalNamesUnique / ResolveIsLexical / AbbreviationsPrivate model-checked on all small scope trees (ScopeMC). ScopeGen (TLC) builds scope trees with reference sites whose intended target or failure class is known; the real front end (stopped after resolution) is run on the rendered modules; ScopeCheck (TLC) decides resolved target = intended, uniqueness of canonical names, error <=> failure class, no exception.",
  note="Name pool of 3 names per kind; <= 2 modules + prelude.",
  technique="TLA+ scoping spec + TLC validation of recorded resolutions"),
 "C13": dict(
  level="model_checking", design="§3.3 Typing, §5 C13",
  text="Typing.tla: the documented operator signatures and position requirements; TypingMC checks that every generated base is well typed and every catalogue violation breaks exactly its rule. TypingGen (TLC) generates bases (must be accepted) and single-rule violations at enumerated sites (must be rejected with a non-synthetic error inside the mutated definition, no exception); TypingCheck decides every recorded compile.",
  note="Expressions of depth <= 3; errors compared by kind and location, never by wording.",
  technique="TLA+ typing spec + TLC-generated programs replayed into the real front end + TLC verdicts"),
 "C14": dict(
  level="model_checking", design="§3.3 Layout, §5 C14",
  text="Layout.tla: documented physical-layout and attribute rules (width ranges, enum ranges, bits rules, arrays, explicit sizes, byte order, attribute placement/multiplicity/values, reserved words); LayoutMC model-checks the edit machine; LayoutGen (TLC) builds modules by edits sweeping the documented boundaries; every module is compiled by the real front end and LayoutCheck (TLC) decides accepted <=> realisable and error location.",
  note="Ambiguous corners of the reference are left out and listed in evidence assumptions.",
  technique="TLA+ layout-rule spec + TLC-generated boundary programs + TLC verdicts on recorded compiles"),
 "C15": dict(
  level="model_checking", design="§3.3 Deps, §5 C15",
  text="Deps.tla: reference graph, HasCycle by transitive closure, SCCs, StableTopo; DepsOrderMC proves for ALL digraphs on small node sets that the greedy ordering loop terminates, yields a permutation, respects dependencies and is the identity on already ordered input. DepsGen enumerates/samples graphs realised as fields, enum values, parameters and module imports; the real front end is run to just after set_dependency_order; DepsCheck (TLC) decides cycle error <=> HasCycle, reported members = one SCC, StableTopo of the recorded order.",
  note="All digraphs on <= 4 nodes + seeded larger graphs.",
  technique="TLA+ dependency-graph spec: exhaustive MC of the ordering loop + TLC validation of recorded compiles"),
 "C16": dict(
  level="model_checking", design="§3.5, §5 C16",
  text="Pipeline.tla is a monitor of the compiler process (import loop, parse cache, twelve passes with early exit and deferred synthetic errors, back end, report); PipelineMC model-checks the design and that defective variants are caught; TLC-enumerated pass-outcome scenarios are replayed into the real glue.process_ir; one event per spec action is recorded from the real front/back end and embossc for inputs none of which is chosen to be valid (bytes, token soup, grammar-shaped programs, mutations/truncations of the corpus, import sets) and TLC (PipelineTrace) evaluates Total, PassOrder, EarlyExit, deferred errors, ErrorsWellFormed and rendering at every step.",
  note="Input families: bytes, soup, gram, valid, nest, imports, xmod (diagnostics crossing a module boundary), semsoup (type-directed semantic soup), mut, trunc, sent, cli. Inputs bounded as in the property; a compilation must finish within 45 s / 3 GiB.",
  technique="TLA+ pipeline monitor + TLC trace validation of recorded compilations"),
 "C17": dict(
  level="model_checking", design="§3.5, §5 C17",
  text="Pipeline.tla (cache, counter, Pure): PipelineMC checks all schedules of <= 3 compilations over source sets sharing imports / anonymous bits / same file name with different text in 2 processes with restarts and 2 hash seeds, and that defective designs are caught; TLC-enumerated schedules are replayed in real interpreters (forked pristine in-process workers under two hash seeds; fresh embossc and emboss_front_end|emboss_codegen_cpp subprocesses with several PYTHONHASHSEED values and import-dir permutations); PipelineTrace validates cache/counter events and evaluates Pure on recorded output hashes (verdict, IR, header, diagnostics).",
  note="No golden output: only a difference between two runs can raise an alarm.",
  technique="TLC-enumerated compile schedules replayed in real interpreters + TLC trace validation"),
 "C18": dict(
  level="model_checking", design="§3.5 IRJson, §5 C18",
  text="IRJson.tla models the IR class table (exported by reflection) and ToJson/FromJson on abstract trees; IRJsonMC checks WellFormed, FromJson(ToJson(t)) = t and idempotence on trees of every class and that defective variants are caught; for every IR the real front end produces (corpus + node-kind-covering family, final and intermediate IRs) the projected tree, the JSON written, the re-read tree and header hashes are validated by TLC (IRJsonCheck); the two-program pipeline is run as real subprocesses against embossc.",
  note="Trees projected by reflection over ir_data field specs.",
  technique="TLA+ serialization spec + TLC validation of recorded IR/JSON/header round trips"),
 "C19": dict(
  level="model_checking", design="§3.4 EnumSem, §5 C19",
  text="EnumSem.tla: underlying type, enumerator set per enum_case spelling, FromName, ToName (first declared), IsKnown, field acceptance, over symbolic 64-bit landmarks; EnumMC model-checks it on a small family; EnumGen (TLC) emits the exhaustive landmark x maximum_bits x is_signed matrix and seeded multi-value enums; the real compiler decides acceptance, C++ drivers over the real generated headers record underlying type, enumerators, TryToGetEnumFromName, TryToGetNameFromEnum, EnumIsKnown, operator<<, field writes/reads; EnumCheck (TLC) recomputes every expectation.",
  note="Landmark values only (edges of 8/16/32/64-bit ranges).",
  technique="TLA+ enum semantics + TLC validation of observations recorded from generated C++"),
 "C20": dict(
  level="model_checking", design="§3.4, §5 C20",
  text="Two-window actions of View.tla (Equals both ways, TryToCopyFrom both ways with memmove semantics, interleaved writes) generated by TLC, replayed into the real generated code over equal / one-bit-different / padding-different / different-length / truncated / overlapping buffers, validated by TLC (verdicts, complete post-allocation, destination observation vector).",
  note="Equals is only exercised on two Ok views as the C++ reference requires; sampled behaviours, seeded.",
  technique="TLC-generated behaviours replayed into generated C++ + TLC trace validation"),
}

NOT_CLAIMED = {
}

PENDING = "check under construction in this session (see DESIGN.md §10 build order); not claimed yet"

def main():
    checks, na = [], []
    for p in props:
        i = p["id"]
        c = CLAIMS.get(i)
        if not c or i in NOT_CLAIMED:
            na.append({"property_id": i, "reason": NOT_CLAIMED.get(i, PENDING)})
            continue
        checks.append({
            "property_id": i,
            "quick_cmd": "./check %s --tier quick" % i,
            "thorough_cmd": "./check %s --tier thorough" % i,
            "evidence_file": "/verif/evidence/%s.json" % i,
            "replay_cmd_template": "./check %s --replay {path}" % i,
            "engine": "tlc",
            "level_claimed": {"category": c["level"], "text": c["text"], "design_ref": c["design"]},
            "level_note": c["note"],
            "technique": c["technique"],
        })
    m = {
        "version": 1,
        "setup_cmd": "./setup.sh",
        "hooks": {"guard": "EMBOSS_VERIF_TRACE",
                  "enable": "no source hooks: probes are harness-side wrappers; checks import /repo's working tree directly (EMBOSS_REPO overrides the path)",
                  "baseline_off_cmd": "cd /repo && /venv/bin/python -m pytest -ra -q -p no:cacheprovider --timeout=900 --continue-on-collection-errors",
                  "source_commits": [], "add_only": True},
        "engines": [{"name": "tlc", "path": "/verif/harness/common.py", "serves_properties": sorted(CLAIMS), "kind_free_text": "TLC 1.8 model checker / simulator / trace validator driven by harness/*.py over spec/**/*.tla"}],
        "checks": checks,
        "notes": "Fix commits in /repo are listed in known_findings.json (fixed:). See DESIGN.md.",
        "not_applicable": na,
    }
    json.dump(m, open(os.path.join(V, "MANIFEST.json"), "w"), indent=1)
    print("checks:", [c["property_id"] for c in checks])

if __name__ == "__main__":
    main()
