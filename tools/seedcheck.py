#!/usr/bin/env python3
"""Evaluate one seeded change:  tools/seedcheck.py <dir with patch.diff [+ demo]> <property> [more checks...]

1. fresh scratch worktree of /repo HEAD under /tmp, patch applied;
2. the repository's own suite must still pass there (BASELINE stable_pass), unless --skip-suite;
3. the demonstration (demo.sh / demo.py, first argument = repository root) must fail on the changed tree and
   pass on the unchanged one, unless --skip-demo;
4. every named check runs with EMBOSS_REPO=<worktree> (evidence/replays go to a temp dir): VIOLATION expected.
Prints one JSON line with the outcome; removes the worktree.
"""
import json
import os
import shutil
import subprocess
import sys
import tempfile
import time

V = os.path.dirname(os.path.dirname(os.path.abspath(__file__)))


def sh(cmd, **kw):
    return subprocess.run(cmd, shell=isinstance(cmd, str), stdout=subprocess.PIPE, stderr=subprocess.STDOUT, text=True, **kw)


def run_demo(d, root):
    for name, runner in (("demo.sh", ["sh"]), ("demo.py", ["/venv/bin/python"])):
        p = os.path.join(d, name)
        if os.path.exists(p):
            r = sh(runner + [p, root], cwd=d, timeout=1800)
            return r.returncode, r.stdout[-1500:]
    return None, "no demo"


def main():
    args = [a for a in sys.argv[1:] if not a.startswith("--")]
    flags = {a for a in sys.argv[1:] if a.startswith("--")}
    d = os.path.abspath(args[0])
    checks = args[1:]
    tier = "thorough" if "--thorough" in flags else "quick"
    wt = tempfile.mkdtemp(prefix="sc-", dir="/tmp")
    os.rmdir(wt)
    out = {"dir": d, "checks": {}}
    try:
        r = sh(["git", "-C", "/repo", "worktree", "add", "--detach", wt, "HEAD"])
        if r.returncode:
            raise SystemExit("worktree: " + r.stdout)
        r = sh(["git", "-C", wt, "apply", os.path.join(d, "patch.diff")])
        out["applies"] = r.returncode == 0
        if r.returncode:
            out["apply_error"] = r.stdout[-500:]
            print(json.dumps(out))
            return
        if "--skip-suite" not in flags:
            r = sh(["/venv/bin/python", os.path.join(V, "tools", "run_baseline.py"), wt], timeout=3600)
            out["suite_passes"] = r.returncode == 0
            out["suite"] = r.stdout.strip().splitlines()[-1] if r.stdout.strip() else ""
        if "--skip-demo" not in flags:
            rc1, o1 = run_demo(d, wt)
            rc0, o0 = run_demo(d, "/repo")
            out["demo_fails_with_change"] = rc1 not in (0, None)
            out["demo_passes_without"] = rc0 == 0
            out["demo_tail_with_change"] = (o1 or "")[-300:]
        ev = tempfile.mkdtemp(prefix="scev-", dir="/tmp")
        for c in checks:
            t0 = time.time()
            env = dict(os.environ, EMBOSS_REPO=wt, VERIF_EVIDENCE_DIR=ev, VERIF_REPLAY_DIR=ev)
            env.pop("VERIF_ONLY", None)
            cmd = [os.path.join(V, "check"), c, "--tier", tier]
            r = sh(cmd, cwd=V, env=env, timeout=7200)
            viol = [l for l in r.stdout.splitlines() if l.startswith("VIOLATION")]
            first = ""
            lines = r.stdout.splitlines()
            for i, l in enumerate(lines):
                if l.startswith("VIOLATION"):
                    first = " | ".join(x.strip() for x in lines[i + 1:i + 3])[:400]
                    break
            out["checks"][c] = {"rc": r.returncode, "violations": len(viol), "first": first, "wall_s": round(time.time() - t0, 1),
                                "tail": r.stdout.strip().splitlines()[-1][:300] if r.stdout.strip() else ""}
        shutil.rmtree(ev, ignore_errors=True)
        print(json.dumps(out))
    finally:
        sh(["git", "-C", "/repo", "worktree", "remove", "--force", wt])
        shutil.rmtree(wt, ignore_errors=True)


if __name__ == "__main__":
    main()
